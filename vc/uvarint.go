package main

// Precise models of encoding/binary.PutUvarint / Uvarint and assumed models
// of time.Time binary marshalling.

import (
	"fmt"
	"go/types"

	"golang.org/x/tools/go/ssa"
)

func u64(v uint64) T { return BVConst(64, v) }

// uvLenT / uvByteT: spec functions uvLen(v) (1..10) and uvByte(v, i), declared
// uninterpreted with defining axioms (instantiated on demand by the solvers).
func uvLenT(v T) T { return UF("uvLen", BV64, v) }

func uvByteT(v T, i int) T { return UF("uvByte", BV8, v, u64(uint64(i))) }

func uvLenDef(v string) string {
	t := "#x000000000000000a"
	for n := 9; n >= 1; n-- {
		t = fmt.Sprintf("(ite (bvult %s %s) %s %s)", v, u64(uint64(1)<<uint(7*n)).S, u64(uint64(n)).S, t)
	}
	return t
}

var uvPrelude = `
(declare-fun uvLen ((_ BitVec 64)) (_ BitVec 64))
(declare-fun uvByte ((_ BitVec 64) (_ BitVec 64)) (_ BitVec 8))
(assert (forall ((v (_ BitVec 64))) (! (and (bvule #x0000000000000001 (uvLen v)) (bvule (uvLen v) #x000000000000000a) (= (uvLen v) ` + uvLenDef("v") + `)) :pattern ((uvLen v)))))
(assert (forall ((v (_ BitVec 64)) (i (_ BitVec 64))) (! (= (uvByte v i)
   (ite (= (bvadd i #x0000000000000001) (uvLen v))
        (bvand ((_ extract 7 0) (bvlshr v (bvmul i #x0000000000000007))) #x7f)
        (bvor ((_ extract 7 0) (bvlshr v (bvmul i #x0000000000000007))) #x80))) :pattern ((uvByte v i)))))
`

// uvDecode: (value, n) of binary.Uvarint over arr[base:base+ln], transcribed
// from encoding/binary (overflow => n<0, short => n==0).
func uvDecode(arr, base, ln T) (T, T) {
	// build from the last iteration backwards
	type acc struct{ v, n T }
	// after 11 bytes (i==10): overflow -(10+1)
	var rec func(i int, x T, shift uint) acc
	rec = func(i int, x T, shift uint) acc {
		if i == 10 {
			return acc{u64(0), i64(-11)}
		}
		b := Select(arr, BVBin("bvadd", base, i64(int64(i))))
		b64 := ZeroExt(b, 64)
		small := BVCmp("bvult", b, BVConst(8, 0x80))
		var doneV, doneN T
		if i == 9 {
			ov := BVCmp("bvugt", b, BVConst(8, 1))
			doneV = Ite(ov, u64(0), BVBin("bvor", x, BVBin("bvshl", b64, u64(uint64(shift)))))
			doneN = Ite(ov, i64(-10), i64(10))
		} else {
			doneV = BVBin("bvor", x, BVBin("bvshl", b64, u64(uint64(shift))))
			doneN = i64(int64(i + 1))
		}
		nx := BVBin("bvor", x, BVBin("bvshl", BVBin("bvand", b64, u64(0x7f)), u64(uint64(shift))))
		next := rec(i+1, nx, shift+7)
		short := BVCmp("bvsle", ln, i64(int64(i)))
		return acc{
			v: Ite(short, u64(0), Ite(small, doneV, next.v)),
			n: Ite(short, i64(0), Ite(small, doneN, next.n)),
		}
	}
	r := rec(0, u64(0), 0)
	return r.v, r.n
}

const timePrelude = `
(declare-fun tmLen ((_ BitVec 64)) (_ BitVec 64))
(declare-fun tmByte ((_ BitVec 64) (_ BitVec 64)) (_ BitVec 8))
(declare-fun tmDec ((Array (_ BitVec 64) (_ BitVec 8)) (_ BitVec 64) (_ BitVec 64)) (_ BitVec 64))
(declare-fun tmOK ((Array (_ BitVec 64) (_ BitVec 8)) (_ BitVec 64) (_ BitVec 64)) Bool)
(declare-fun tmWit ((_ BitVec 64) (Array (_ BitVec 64) (_ BitVec 8)) (_ BitVec 64)) (_ BitVec 64))
(assert (forall ((t (_ BitVec 64))) (! (and (bvsle #x0000000000000001 (tmLen t)) (bvsle (tmLen t) #x0000000000000010)) :pattern ((tmLen t)))))
(assert (forall ((t (_ BitVec 64)) (a (Array (_ BitVec 64) (_ BitVec 8))) (base (_ BitVec 64)) (n (_ BitVec 64)))
  (! (=> (and (= n (tmLen t))
              (=> (and (bvsle #x0000000000000000 (tmWit t a base)) (bvslt (tmWit t a base) (tmLen t)))
                  (= (select a (bvadd base (tmWit t a base))) (tmByte t (tmWit t a base)))))
         (and (tmOK a base n) (= (tmDec a base n) t)))
     :pattern ((tmDec a base n) (tmLen t)))))
`

func init() {
	specPreludes["tmLen"] = timePrelude
	specPreludeOrder = append(specPreludeOrder, "tmLen")
	specPreludes["uvLen"] = uvPrelude
	specPreludeOrder = append(specPreludeOrder, "uvLen")

	intrinsics["encoding/binary.PutUvarint"] = func(e *Exec, st *State, fr *Frame, a []Value, in ssa.Instruction) Value {
		b := sliceOf(e, a[0])
		v := a[1].(VInt).T
		n := uvLenT(v)
		e.safe(st, in, "index", BVCmp("bvsle", n, b.Len))
		if b.Reg == nil {
			st.Dead = true
			return VInt{T: n, Signed: true}
		}
		arr := byteRegion(e, st, b)
		for i := 0; i < 10; i++ {
			idx := BVBin("bvadd", b.Base, i64(int64(i)))
			arr = Ite(BVCmp("bvult", u64(uint64(i)), n), Store(arr, idx, uvByteT(v, i)), arr)
		}
		// name the conditional-store term (ite terms are not allowed in patterns)
		na := e.fresh("putuvarint", ByteArr)
		st.assume(Eq(na, arr))
		e.setRegArr(st, b.Reg, "", na)
		return VInt{T: n, Signed: true}
	}
	intrinsics["encoding/binary.Uvarint"] = func(e *Exec, st *State, fr *Frame, a []Value, in ssa.Instruction) Value {
		b := sliceOf(e, a[0])
		v, n := uvDecode(byteRegion(e, st, b), b.Base, b.Len)
		// name the results to keep later terms small
		vs, ns := e.fresh("uvarint_v", BV64), e.fresh("uvarint_n", BV64)
		st.assume(Eq(vs, v))
		st.assume(Eq(ns, n))
		return VTuple{E: []Value{VInt{T: vs}, VInt{T: ns, Signed: true}}}
	}
	// time.Time binary marshalling (assumed: UnmarshalBinary inverts MarshalBinary)
	intrinsics["(time.Time).MarshalBinary"] = func(e *Exec, st *State, fr *Frame, a []Value, in ssa.Instruction) Value {
		t := a[0].(VOpaque).T
		e.specFns["tmLen"] = true
		n := UF("tmLen", BV64, t)
		s := e.newSlice(st, types.Typ[types.Uint8], n, n, fmt.Sprintf("tmbin#%d", e.nobj+1))
		arr := e.fresh("tmbytes", ByteArr)
		e.nbound++
		k := Sym(fmt.Sprintf("k!q%d", e.nbound), BV64)
		st.assume(Forall([]T{k}, Implies(And(BVCmp("bvsle", i64(0), k), BVCmp("bvslt", k, n)), Eq(Select(arr, k), UF("tmByte", BV8, t, k))), Select(arr, k)))
		e.setRegArr(st, s.Reg, "", arr)
		err := VErr{e.fresh("tmMarshalErr", BV32)}
		return VTuple{E: []Value{s, err}}
	}
	intrinsics["(*time.Time).UnmarshalBinary"] = func(e *Exec, st *State, fr *Frame, a []Value, in ssa.Instruction) Value {
		p := a[0].(VPtr)
		e.safe(st, in, "nil", Not(p.Nil))
		b := sliceOf(e, a[1])
		e.specFns["tmLen"] = true
		arr := byteRegion(e, st, b)
		nt := UF("tmDec", BV64, arr, b.Base, b.Len)
		ok := UF("tmOK", BoolSort, arr, b.Base, b.Len)
		err := e.fresh("tmUnmarshalErr", BV32)
		st.assume(Eq(ok, Eq(err, BVConst(32, 0))))
		if p.Loc != nil {
			e.storeLoc(st, p.Loc, VOpaque{T: nt, Typ: p.Elem})
		}
		return VErr{err}
	}
	// isuv(s, off, v): the uvarint encoding of v sits at s[off:]
	specFuncs["isuv"] = func(env *Env, n *ECall) Value {
		if len(n.Args) != 3 {
			env.fail("isuv expects 3 arguments")
		}
		s := env.sliceArg(n.Args[0])
		off := BVBin("bvadd", s.Base, env.idx64(n.Args[1]))
		v := coerceUntyped(env.evalInt(n.Args[2]), 64, false).T
		arr := env.byteArr(s)
		ln := uvLenT(v)
		env.e.specFns["uvLen"] = true
		return env.rangeForall(func(j T) T {
			return Eq(Select(arr, j), UF("uvByte", BV8, v, BVBin("bvsub", j, off)))
		}, off, BVBin("bvadd", off, ln), func(j T) T { return Select(arr, j) })
	}
	specFuncs["uvlen"] = func(env *Env, n *ECall) Value {
		if len(n.Args) != 1 {
			env.fail("uvlen expects 1 argument")
		}
		v := coerceUntyped(env.evalInt(n.Args[0]), 64, false).T
		return VInt{T: uvLenT(v), Signed: true}
	}
	// istime(s, off, t): the binary encoding of t sits at s[off:off+tmlen(t))
	specFuncs["istime"] = func(env *Env, n *ECall) Value {
		if len(n.Args) != 3 {
			env.fail("istime expects 3 arguments")
		}
		s := env.sliceArg(n.Args[0])
		off := BVBin("bvadd", s.Base, env.idx64(n.Args[1]))
		tv, ok := env.eval(n.Args[2]).(VOpaque)
		if !ok {
			env.fail("istime: not a time value")
		}
		env.e.specFns["tmLen"] = true
		arr := env.byteArr(s)
		ln := UF("tmLen", BV64, tv.T)
		return env.rangeForall(func(j T) T {
			return Eq(Select(arr, j), UF("tmByte", BV8, tv.T, BVBin("bvsub", j, off)))
		}, off, BVBin("bvadd", off, ln), func(j T) T { return Select(arr, j) })
	}
	specFuncs["tmlen"] = func(env *Env, n *ECall) Value {
		tv, ok := env.eval(n.Args[0]).(VOpaque)
		if !ok {
			env.fail("tmlen: not a time value")
		}
		env.e.specFns["tmLen"] = true
		return VInt{T: UF("tmLen", BV64, tv.T), Signed: true}
	}
}
