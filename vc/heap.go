package main

// Heap model: objects with functional struct trees, regions with SMT arrays,
// lazy materialisation of the pre-state by name.

import (
	"fmt"
	"go/token"
	"go/types"
	"strconv"
	"strings"
)

func pathKey(p []int) string {
	if len(p) == 0 {
		return ""
	}
	ss := make([]string, len(p))
	for i, x := range p {
		ss[i] = strconv.Itoa(x)
	}
	return strings.Join(ss, ".")
}

func (e *Exec) declare(name string, s Sort) T {
	name = sanitize(name)
	if old, ok := e.decls[name]; ok {
		if !old.Eq(s) {
			panic(fmt.Sprintf("redeclaration of %s with different sort %s vs %s", name, old, s))
		}
	} else {
		e.decls[name] = s
		e.declOrder = append(e.declOrder, name)
	}
	return Sym(name, s)
}

func (e *Exec) fresh(prefix string, s Sort) T {
	e.nfresh++
	return e.declare(fmt.Sprintf("%s!%d", prefix, e.nfresh), s)
}

func (e *Exec) newObject(name string, typ types.Type, lazy bool) *Object {
	e.nobj++
	return &Object{ID: e.nobj, Name: name, Typ: typ, Lazy: lazy}
}

func (e *Exec) newRegion(name string, elem types.Type) *Region {
	e.nobj++
	return &Region{ID: e.nobj, Name: name, Elem: elem}
}

// lazyObject returns the pre-state object with the given name.
func (e *Exec) lazyObject(name string, typ types.Type) *Object {
	if o, ok := e.lazyObjs[name]; ok {
		return o
	}
	o := e.newObject(name, typ, true)
	e.lazyObjs[name] = o
	return o
}

// heapRegion is the pre-state heap of struct type t: the fields of every t
// reached through a pointer stored in a slice element, indexed by address.
func (e *Exec) heapRegion(t types.Type) *Region {
	r := e.lazyRegion("heap:"+t.String(), t)
	e.allRegs[r.Name] = r
	return r
}

func (e *Exec) lazyRegion(name string, elem types.Type) *Region {
	if r, ok := e.lazyRegs[name]; ok {
		return r
	}
	r := e.newRegion(name, elem)
	e.lazyRegs[name] = r
	return r
}

const maxLenBits = 40 // slices in the pre-state are assumed shorter than 2^40 elements

// materialize builds the initial symbolic value of a location of type typ
// identified by name. Deterministic in (name, typ).
func (e *Exec) materialize(name string, typ types.Type) Value {
	if isErrorType(typ) {
		return VErr{e.declare(name, BV32)}
	}
	if isTimeType(typ) {
		return VOpaque{T: e.declare(name, BV64), Typ: typ}
	}
	switch u := typ.Underlying().(type) {
	case *types.Basic:
		if w, signed, ok := intInfo(typ); ok {
			return VInt{T: e.declare(name, BVSort(w)), Signed: signed}
		}
		if isBoolType(typ) {
			return VBool{e.declare(name, BoolSort)}
		}
		if isStringType(typ) {
			return VStr{T: e.declare(name, BV32)}
		}
		return VOpaque{T: e.declare(name, BV64), Typ: typ}
	case *types.Struct:
		if isOpaqueStructType(typ) {
			return VOpaque{T: e.declare(name, BV64), Typ: typ}
		}
		return VStruct{Typ: typ, F: make([]Value, u.NumFields()), Key: name}
	case *types.Pointer:
		nilc := e.declare(name+"?nil", BoolSort)
		if e.nonNil[name] {
			nilc = False
		}
		if et, ok := isSortedMapType(u.Elem()); ok {
			reg := e.lazyRegion(name+"^smap", et)
			e.allRegs[reg.Name] = reg
			return VSMap{Nil: nilc, Reg: reg, Elem: et}
		}
		obj := e.lazyObject(name+"^", u.Elem())
		return VPtr{Nil: nilc, Loc: &Loc{Obj: obj}, Elem: u.Elem()}
	case *types.Slice:
		reg := e.lazyRegion(name, u.Elem())
		ln := e.declare(name+"?len", BV64)
		cp := e.declare(name+"?cap", BV64)
		nilc := e.declare(name+"?nil", BoolSort)
		e.addAxiom(And(BVCmp("bvsle", BVConst(64, 0), ln), BVCmp("bvsle", ln, cp),
			BVCmp("bvslt", cp, BVConst(64, 1<<maxLenBits)),
			Implies(nilc, Eq(cp, BVConst(64, 0)))))
		return VSlice{Nil: nilc, Reg: reg, Base: BVConst(64, 0), Len: ln, Cap: cp, Elem: u.Elem()}
	case *types.Array:
		reg := e.lazyRegion(name, u.Elem())
		return VArr{Reg: reg, N: u.Len()}
	case *types.Interface:
		nilc := e.declare(name+"?nil", BoolSort)
		if e.nonNil[name] {
			nilc = False
		}
		obj := e.lazyObject(name+"^", typ)
		return VIface{Nil: nilc, Obj: obj, Typ: typ}
	case *types.Map:
		return VMap{Obj: e.lazyObject(name+"^", typ), Nil: e.declare(name+"?nil", BoolSort)}
	case *types.Chan:
		return VChan{Obj: e.lazyObject(name+"^", typ), Nil: e.declare(name+"?nil", BoolSort)}
	case *types.Signature:
		return VFunc{Abstract: name, Nil: e.declare(name+"?nil", BoolSort), Typ: typ}
	case *types.Tuple:
		vt := VTuple{}
		for i := 0; i < u.Len(); i++ {
			vt.E = append(vt.E, e.materialize(fmt.Sprintf("%s.%d", name, i), u.At(i).Type()))
		}
		return vt
	}
	e.unsupported("materialize type " + typ.String())
	return VOpaque{T: e.declare(name, BV64), Typ: typ}
}

func (e *Exec) addAxiom(t T) {
	if t.Const && t.V == 1 {
		return
	}
	if e.axiomSet[t.S] {
		return
	}
	e.axiomSet[t.S] = true
	e.axioms = append(e.axioms, t)
}

// zeroValue builds the Go zero value of a type.
func (e *Exec) zeroValue(typ types.Type) Value {
	if isErrorType(typ) {
		return VErr{BVConst(32, 0)}
	}
	if isTimeType(typ) {
		return VOpaque{T: BVConst(64, 0), Typ: typ}
	}
	switch u := typ.Underlying().(type) {
	case *types.Basic:
		if w, signed, ok := intInfo(typ); ok {
			return VInt{T: BVConst(w, 0), Signed: signed}
		}
		if isBoolType(typ) {
			return VBool{False}
		}
		if isStringType(typ) {
			s := ""
			return VStr{T: e.strConst(""), Lit: &s}
		}
		return VOpaque{T: BVConst(64, 0), Typ: typ}
	case *types.Struct:
		if isOpaqueStructType(typ) {
			return VOpaque{T: BVConst(64, 0), Typ: typ}
		}
		vs := VStruct{Typ: typ, F: make([]Value, u.NumFields())}
		for i := 0; i < u.NumFields(); i++ {
			vs.F[i] = e.zeroValue(u.Field(i).Type())
		}
		return vs
	case *types.Pointer:
		if et, ok := isSortedMapType(u.Elem()); ok {
			return VSMap{Nil: True, Elem: et}
		}
		return VPtr{Nil: True, Elem: u.Elem()}
	case *types.Slice:
		return VSlice{Nil: True, Base: BVConst(64, 0), Len: BVConst(64, 0), Cap: BVConst(64, 0), Elem: u.Elem()}
	case *types.Array:
		reg := e.newRegion(fmt.Sprintf("arr%d", e.nobj+1), u.Elem())
		if s, ok := elemSort(u.Elem()); ok && s.K == SBV {
			z := T{S: fmt.Sprintf("((as const %s) %s)", ArrSort(BV64, s).String(), BVConst(s.W, 0).S), Sort: ArrSort(BV64, s)}
			reg.Init = &z
		}
		return VArr{Reg: reg, N: u.Len()}
	case *types.Interface:
		return VIface{Nil: True, Typ: typ}
	case *types.Map:
		return VMap{Nil: True}
	case *types.Chan:
		return VChan{Nil: True}
	case *types.Signature:
		return VFunc{Nil: True, Typ: typ}
	}
	e.unsupported("zero value of " + typ.String())
	return VOpaque{T: BVConst(64, 0), Typ: typ}
}

func (e *Exec) strConst(s string) T {
	if id, ok := e.prog.strIDs[s]; ok {
		return BVConst(32, uint64(id))
	}
	id := len(e.prog.strIDs) + 1
	e.prog.strIDs[s] = id
	return BVConst(32, uint64(id))
}

func structOf(t types.Type) *types.Struct {
	s, _ := t.Underlying().(*types.Struct)
	return s
}

// materializeAt builds a fresh symbolic value for the location (typ, path),
// honouring `atomic` declarations of the holder struct.
func (e *Exec) materializeAt(root types.Type, path []int, name string) Value {
	typ := typeAtPath(root, path)
	if typ == nil {
		return nil
	}
	if len(path) > 0 {
		holder := typeAtPath(root, path[:len(path)-1])
		if hs := structOf(holder); hs != nil {
			f := hs.Field(path[len(path)-1])
			if at, ok := e.atomicType(holder, f); ok {
				return VIface{Nil: False, Dyn: at, Val: e.materialize(name+".v", at), Typ: f.Type()}
			}
		}
	}
	return e.materialize(name, typ)
}

// fieldOf returns the i-th field value of a struct value, materialising it.
func (e *Exec) fieldOf(v Value, i int) Value {
	vs, ok := v.(VStruct)
	if !ok {
		e.unsupported(fmt.Sprintf("field access on non-struct value %T", v))
		return VOpaque{T: BVConst(64, 0)}
	}
	if vs.F[i] != nil {
		return vs.F[i]
	}
	st := structOf(vs.Typ)
	f := st.Field(i)
	if at, ok := e.atomicType(vs.Typ, f); ok {
		return VIface{Nil: False, Dyn: at, Val: e.materialize(vs.Key+"."+f.Name()+".v", at), Typ: f.Type()}
	}
	return e.materialize(vs.Key+"."+f.Name(), f.Type())
}

func (e *Exec) getPath(v Value, path []int) Value {
	for _, i := range path {
		v = e.fieldOf(v, i)
	}
	return v
}

func (e *Exec) setPath(v Value, path []int, nv Value) Value {
	if len(path) == 0 {
		return nv
	}
	vs, ok := v.(VStruct)
	if !ok {
		if _, opaque := v.(VOpaque); opaque {
			// field of an opaque (unmodelled) struct such as sync.Pool: ignored
			return v
		}
		e.unsupported(fmt.Sprintf("field store on non-struct value %T", v))
		return v
	}
	nf := make([]Value, len(vs.F))
	copy(nf, vs.F)
	child := e.fieldOf(vs, path[0])
	nf[path[0]] = e.setPath(child, path[1:], nv)
	return VStruct{Typ: vs.Typ, F: nf, Key: vs.Key}
}

func (e *Exec) objRoot(st *State, o *Object) Value {
	if v, ok := st.Objs[o]; ok {
		return v
	}
	if o.ZeroInit {
		if z, ok := e.zeroObjs[o]; ok {
			return z
		}
		z := e.zeroValue(o.Typ)
		e.zeroObjs[o] = z
		return z
	}
	if o.Lazy {
		return e.materialize(o.Name, o.Typ)
	}
	return e.zeroValue(o.Typ)
}

// typeAtPath returns the static type at a field path below typ.
func typeAtPath(typ types.Type, path []int) types.Type {
	for _, i := range path {
		s := structOf(typ)
		if s == nil {
			return nil
		}
		typ = s.Field(i).Type()
	}
	return typ
}

// regArr returns the current array term of a region sub-path.
func (e *Exec) regArr(st *State, r *Region, key string, s Sort) T {
	if m, ok := st.Mem[r]; ok {
		if t, ok := m[key]; ok {
			return t
		}
	}
	if key == "" && r.Init != nil {
		return *r.Init
	}
	if al, ok := e.regionAlias[r]; ok {
		return e.regArr(st, al, key, s)
	}
	n := r.Name + "@mem"
	if key != "" {
		n += "." + key
	}
	return e.declare(n, ArrSort(BV64, s))
}

func (e *Exec) setRegArr(st *State, r *Region, key string, t T) {
	m, ok := st.Mem[r]
	if !ok {
		m = map[string]T{}
		st.Mem[r] = m
	}
	m[key] = t
	st.Writes["reg:"+r.Name] = true
	e.writtenRegs[r.Name] = r
	e.allRegs[r.Name] = r
}

// readElem reads the value of type typ at (region, idx, path).
func (e *Exec) readElem(st *State, r *Region, idx T, path []int, typ types.Type) Value {
	key := pathKey(path)
	if isErrorType(typ) {
		return VErr{Select(e.regArr(st, r, key, BV32), idx)}
	}
	if isTimeType(typ) {
		return VOpaque{T: Select(e.regArr(st, r, key, BV64), idx), Typ: typ}
	}
	switch u := typ.Underlying().(type) {
	case *types.Basic:
		if w, signed, ok := intInfo(typ); ok {
			return VInt{T: Select(e.regArr(st, r, key, BVSort(w)), idx), Signed: signed}
		}
		if isBoolType(typ) {
			return VBool{Select(e.regArr(st, r, key, BoolSort), idx)}
		}
		if isStringType(typ) {
			return VStr{T: Select(e.regArr(st, r, key, BV32), idx)}
		}
		return VOpaque{T: Select(e.regArr(st, r, key, BV64), idx), Typ: typ}
	case *types.Struct:
		if isOpaqueStructType(typ) {
			return VOpaque{T: Select(e.regArr(st, r, key, BV64), idx), Typ: typ}
		}
		vs := VStruct{Typ: typ, F: make([]Value, u.NumFields())}
		for i := 0; i < u.NumFields(); i++ {
			np := append(append([]int(nil), path...), i)
			vs.F[i] = e.readElem(st, r, idx, np, u.Field(i).Type())
		}
		return vs
	case *types.Slice:
		// element holding a slice: derived region, content = select(family, idx)
		es, ok := elemSort(u.Elem())
		k := key
		if k == "" {
			k = "_"
		}
		lnA, cpA, nilA := e.regArr(st, r, k+".len", BV64), e.regArr(st, r, k+".cap", BV64), e.regArr(st, r, k+".nil", BoolSort)
		ln := Select(lnA, idx)
		cp := Select(cpA, idx)
		nilc := Select(nilA, idx)
		if !strings.Contains(lnA.S, " ") && !strings.Contains(cpA.S, " ") && !strings.Contains(nilA.S, " ") {
			// every element of a pre-state slice-of-slices is a well-formed slice
			q := Sym("k!ax", BV64)
			l, c, n := Select(lnA, q), Select(cpA, q), Select(nilA, q)
			e.addAxiom(Forall([]T{q}, And(BVCmp("bvsle", BVConst(64, 0), l), BVCmp("bvsle", l, c),
				BVCmp("bvslt", c, BVConst(64, 1<<maxLenBits)), Implies(n, Eq(c, BVConst(64, 0)))), l))
		}
		name := fmt.Sprintf("%s[%s].%s", r.Name, idx.S, k)
		var dr *Region
		if ok {
			fam := e.regArr(st, r, k+".arr", ArrSort(BV64, es))
			// the derived region is keyed by the family term too so that a later
			// write to the family yields a different region
			name = fmt.Sprintf("%s{%d}", name, len(fam.S))
			if old, have := e.lazyRegs[name]; have {
				dr = old
			} else {
				dr = e.newRegion(name, u.Elem())
				c := Select(fam, idx)
				dr.Init = &c
				dr.Derived = true
				e.lazyRegs[name] = dr
			}
		} else {
			dr = e.lazyRegion(name, u.Elem())
			dr.Derived = true
		}
		return VSlice{Nil: nilc, Reg: dr, Base: BVConst(64, 0), Len: ln, Cap: cp, Elem: u.Elem()}
	case *types.Pointer:
		k := key
		if k == "" {
			k = "_"
		}
		nilc := Select(e.regArr(st, r, k+".nil", BoolSort), idx)
		// pointer identity: a BV64 "address" array lets us compare pointers
		// read at different indices; the object is keyed by the address term.
		addr := Select(e.regArr(st, r, k+".addr", BV64), idx)
		if o, ok := e.addrObjs[addr.S]; ok {
			return VPtr{Nil: nilc, Loc: &Loc{Obj: o}, Elem: u.Elem()}
		}
		// The pointee lives in the heap of its type: a region indexed by the
		// address, so that two syntactically different index terms that denote
		// the same element reach the same fields, also under a quantifier.
		if _, isStruct := u.Elem().Underlying().(*types.Struct); isStruct && !isOpaqueStructType(u.Elem()) {
			return VPtr{Nil: nilc, Loc: &Loc{Reg: e.heapRegion(u.Elem()), Idx: addr}, Elem: u.Elem()}
		}
		name := fmt.Sprintf("%s[%s]", r.Name, idx.S)
		if k != "_" {
			name += "." + k
		}
		obj := e.lazyObject(name+"^", u.Elem())
		e.addrObjs[addr.S] = obj
		e.objAddr[obj] = addr
		return VPtr{Nil: nilc, Loc: &Loc{Obj: obj}, Elem: u.Elem()}
	case *types.Interface:
		k := key
		if k == "" {
			k = "_"
		}
		nilc := Select(e.regArr(st, r, k+".nil", BoolSort), idx)
		name := fmt.Sprintf("%s[%s]", r.Name, idx.S)
		if k != "_" {
			name += "." + k
		}
		return VIface{Nil: nilc, Obj: e.lazyObject(name+"^", typ), Typ: typ}
	case *types.Signature:
		// element holding a function value: abstract, only its nil-ness is tracked
		k := key
		if k == "" {
			k = "_"
		}
		nilc := Select(e.regArr(st, r, k+".nil", BoolSort), idx)
		return VFunc{Abstract: fmt.Sprintf("%s[%s]", r.Name, idx.S), Nil: nilc, Typ: typ}
	}
	e.unsupported("region element of type " + typ.String())
	return VOpaque{T: BVConst(64, 0), Typ: typ}
}

// writeElem writes v at (region, idx, path).
func (e *Exec) writeElem(st *State, r *Region, idx T, path []int, v Value) {
	key := pathKey(path)
	if _, isI := r.Elem.Underlying().(*types.Interface); isI && !isErrorType(r.Elem) && len(path) == 0 && idx.Const {
		// []interface{} (variadic arguments): remember the stored value
		e.anyElems[fmt.Sprintf("%s[%d]", r.Name, idx.V)] = v
		st.Writes["reg:"+r.Name] = true
		e.allRegs[r.Name] = r
		return
	}
	switch x := v.(type) {
	case VInt:
		a := e.regArr(st, r, key, x.T.Sort)
		e.setRegArr(st, r, key, Store(a, idx, x.T))
	case VBool:
		a := e.regArr(st, r, key, BoolSort)
		e.setRegArr(st, r, key, Store(a, idx, x.T))
	case VErr:
		a := e.regArr(st, r, key, BV32)
		e.setRegArr(st, r, key, Store(a, idx, x.T))
	case VStr:
		a := e.regArr(st, r, key, BV32)
		e.setRegArr(st, r, key, Store(a, idx, x.T))
		if idx.Const && key == "" {
			e.strElems[fmt.Sprintf("%s[%d]", r.Name, idx.V)] = x
		}
	case VOpaque:
		a := e.regArr(st, r, key, BV64)
		e.setRegArr(st, r, key, Store(a, idx, x.T))
	case VStruct:
		for i := range x.F {
			np := append(append([]int(nil), path...), i)
			e.writeElem(st, r, idx, np, e.fieldOf(x, i))
		}
	case VSlice:
		k := key
		if k == "" {
			k = "_"
		}
		e.setRegArr(st, r, k+".len", Store(e.regArr(st, r, k+".len", BV64), idx, x.Len))
		e.setRegArr(st, r, k+".cap", Store(e.regArr(st, r, k+".cap", BV64), idx, x.Cap))
		e.setRegArr(st, r, k+".nil", Store(e.regArr(st, r, k+".nil", BoolSort), idx, x.Nil))
		if es, ok := elemSort(x.Elem); ok {
			fam := e.regArr(st, r, k+".arr", ArrSort(BV64, es))
			var content T
			if x.Reg == nil {
				content = e.fresh("nilarr", ArrSort(BV64, es))
			} else if x.Base.Const && x.Base.V == 0 {
				content = e.regArr(st, x.Reg, "", es)
			} else {
				// shifted view: fresh array constrained pointwise
				content = e.fresh("shift", ArrSort(BV64, es))
				k := Sym("k!s", BV64)
				src := e.regArr(st, x.Reg, "", es)
				e.addAxiom(Forall([]T{k}, Eq(Select(content, k), Select(src, BVBin("bvadd", x.Base, k))), Select(content, k)))
			}
			e.setRegArr(st, r, k+".arr", Store(fam, idx, content))
		}
	case VPtr:
		k := key
		if k == "" {
			k = "_"
		}
		e.setRegArr(st, r, k+".nil", Store(e.regArr(st, r, k+".nil", BoolSort), idx, x.Nil))
		if x.Loc != nil && x.Loc.Reg != nil && strings.HasPrefix(x.Loc.Reg.Name, "heap:") && len(x.Loc.Path) == 0 {
			e.setRegArr(st, r, k+".addr", Store(e.regArr(st, r, k+".addr", BV64), idx, x.Loc.Idx))
		} else if x.Loc != nil && x.Loc.Obj != nil && len(x.Loc.Path) == 0 {
			addr, ok := e.objAddr[x.Loc.Obj]
			if !ok {
				addr = e.fresh("addr", BV64)
				e.objAddr[x.Loc.Obj] = addr
				e.addrObjs[addr.S] = x.Loc.Obj
			}
			e.setRegArr(st, r, k+".addr", Store(e.regArr(st, r, k+".addr", BV64), idx, addr))
		} else {
			e.setRegArr(st, r, k+".addr", Store(e.regArr(st, r, k+".addr", BV64), idx, e.fresh("addr", BV64)))
		}
	case VIface:
		k := key
		if k == "" {
			k = "_"
		}
		e.setRegArr(st, r, k+".nil", Store(e.regArr(st, r, k+".nil", BoolSort), idx, x.Nil))
	case VFunc:
		k := key
		if k == "" {
			k = "_"
		}
		e.setRegArr(st, r, k+".nil", Store(e.regArr(st, r, k+".nil", BoolSort), idx, x.Nil))
	default:
		e.unsupported(fmt.Sprintf("store of %T into region element", v))
	}
}

// load reads the value at a location.
func (e *Exec) load(st *State, l *Loc, typ types.Type) Value {
	if l.Reg != nil {
		return e.readElem(st, l.Reg, l.Idx, l.Path, typ)
	}
	root := e.objRoot(st, l.Obj)
	return e.getPath(root, l.Path)
}

// storeLoc writes v at a location.
func (e *Exec) storeLoc(st *State, l *Loc, v Value) {
	if l.Reg != nil {
		e.writeElem(st, l.Reg, l.Idx, l.Path, v)
		return
	}
	root := e.objRoot(st, l.Obj)
	st.Objs[l.Obj] = e.setPath(root, l.Path, v)
	wk := "obj:" + l.Obj.Name + ":" + pathKey(l.Path)
	st.Writes[wk] = true
	if _, ok := e.allLocs[wk]; !ok {
		e.allLocs[wk] = &Loc{Obj: l.Obj, Path: append([]int(nil), l.Path...)}
	}
	if l.Obj.Lazy {
		e.writtenLocs[l.Obj.Name+":"+pathKey(l.Path)] = &Loc{Obj: l.Obj, Path: append([]int(nil), l.Path...)}
	}
}

// atomicType resolves an `atomic` declaration for a struct field of type
// sync/atomic.Value: "atomic Writer.offsets []uint32".
func (e *Exec) atomicType(holder types.Type, f *types.Var) (types.Type, bool) {
	n, ok := f.Type().(*types.Named)
	if !ok || n.Obj().Pkg() == nil || n.Obj().Pkg().Path() != "sync/atomic" || n.Obj().Name() != "Value" {
		return nil, false
	}
	hn, ok := holder.(*types.Named)
	if !ok || hn.Obj().Pkg() == nil {
		return nil, false
	}
	key := hn.Obj().Pkg().Name() + "." + hn.Obj().Name() + "." + f.Name()
	txt, ok := e.prog.contracts.Atomics[key]
	if !ok {
		return nil, false
	}
	tv, err := types.Eval(e.prog.fset, hn.Obj().Pkg(), token.NoPos, txt)
	if err != nil {
		e.unsupported("atomic declaration " + key + ": " + err.Error())
		return nil, false
	}
	return tv.Type, true
}

// freshName returns a unique, not yet declared symbol name.
func (e *Exec) freshName(prefix string) string {
	e.nfresh++
	return fmt.Sprintf("%s!%d", prefix, e.nfresh)
}
