package main

// Evaluation of contract expressions over symbolic states.

import (
	"fmt"
	"go/types"
	"strings"

	"golang.org/x/tools/go/ssa"
)

type Env struct {
	e       *Exec
	st      *State
	old     *State
	fr      *Frame
	vars    map[string]Value
	pos     bool // true: expression is a proof goal; false: an assumption
	isOld   bool // evaluating in a past state: SSA-value name bindings are not valid
	atCallSite bool // evaluating a callee's contract at a call site
	ghostFromOld bool // ghost globals read their pre-call value (ghostset right-hand sides)
	pkgName string
	depth   int
}

type contractError struct{ msg string }

func (env *Env) fail(format string, a ...interface{}) {
	panic(contractError{fmt.Sprintf(format, a...)})
}

func (env *Env) sub() *Env {
	n := *env
	n.vars = make(map[string]Value, len(env.vars)+2)
	for k, v := range env.vars {
		n.vars[k] = v
	}
	return &n
}

func (env *Env) evalBool(x Expr) T {
	v := env.eval(x)
	b, ok := v.(VBool)
	if !ok {
		env.fail("expected boolean expression, got %T", v)
	}
	return b.T
}

// tryEvalBool evaluates a boolean contract expression, returning contract
// errors instead of raising them.
func (env *Env) tryEvalBool(x Expr) (t T, cerr string) {
	defer func() {
		if r := recover(); r != nil {
			if ce, ok := r.(contractError); ok {
				cerr = ce.msg
				return
			}
			panic(r)
		}
	}()
	return env.evalBool(x), ""
}

// tryEval is eval with contract errors returned instead of raised.
func (env *Env) tryEval(x Expr) (v Value, cerr string) {
	defer func() {
		if r := recover(); r != nil {
			if ce, ok := r.(contractError); ok {
				cerr = ce.msg
				return
			}
			panic(r)
		}
	}()
	return env.eval(x), ""
}

func (env *Env) pcHas(t T) bool {
	if env.st == nil {
		return false
	}
	for _, c := range env.st.PC {
		if c.S == t.S {
			return true
		}
	}
	return false
}

func (env *Env) evalInt(x Expr) VInt {
	v := env.eval(x)
	switch i := v.(type) {
	case VInt:
		return i
	case VOpaque:
		return VInt{T: i.T}
	}
	env.fail("expected integer expression, got %T", v)
	return VInt{}
}

func (env *Env) pkg() *ssa.Package {
	name := env.pkgName
	if name == "" && env.e.fn != nil && env.e.fn.Pkg != nil {
		return env.e.fn.Pkg
	}
	for _, p := range env.e.prog.pkgs {
		if p.Pkg.Name() == name {
			return p
		}
	}
	if env.e.fn != nil {
		return env.e.fn.Pkg
	}
	return nil
}

func (env *Env) lookupIdent(name string) (Value, bool) {
	if v, ok := env.vars[name]; ok {
		return v, true
	}
	if strings.HasPrefix(name, "g_") {
		if env.ghostFromOld && env.old != nil {
			return env.e.ghostGlobal(env.old, name), true
		}
		return env.e.ghostGlobal(env.st, name), true
	}
	if env.fr != nil {
		// a captured variable lives in its cell: read the cell, not an earlier
		// load of it that a debug reference may point to
		for _, fv := range env.fr.Fn.FreeVars {
			if fv.Name() == name {
				if v, ok := env.fr.Vals[fv]; ok {
					if p, ok := v.(VPtr); ok && p.Loc != nil {
						return env.e.load(env.st, p.Loc, p.Elem), true
					}
					return v, true
				}
			}
		}
		// phis of the current block carry the source variable name
		if env.fr.Block != nil && !env.isOld {
			for _, in := range env.fr.Block.Instrs {
				if phi, ok := in.(*ssa.Phi); ok {
					if phi.Comment == name {
						if v, ok := env.fr.Vals[phi]; ok {
							return v, true
						}
					}
				} else {
					break
				}
			}
		}
		if nr, ok := env.fr.Names[name]; ok && (!env.isOld || nr.IsAddr) {
			if v, have := env.fr.Vals[nr.V]; have {
				if nr.IsAddr {
					if p, ok := v.(VPtr); ok && p.Loc != nil {
						return env.e.load(env.st, p.Loc, p.Elem), true
					}
				}
				return v, true
			}
			if _, isC := nr.V.(*ssa.Const); isC {
				return env.e.val(env.st, env.fr, nr.V), true
			}
		}
		for _, p := range env.fr.Fn.Params {
			if p.Name() == name {
				if v, ok := env.fr.Vals[p]; ok {
					return v, true
				}
			}
		}
		for _, fv := range env.fr.Fn.FreeVars {
			if fv.Name() == name {
				if v, ok := env.fr.Vals[fv]; ok {
					if p, ok := v.(VPtr); ok && p.Loc != nil {
						return env.e.load(env.st, p.Loc, p.Elem), true
					}
					return v, true
				}
			}
		}
	}
	// package-level constants and variables
	if p := env.pkg(); p != nil {
		if m, ok := p.Members[name]; ok {
			switch g := m.(type) {
			case *ssa.NamedConst:
				v := env.e.constVal(g.Value)
				if b, ok := g.Value.Type().(*types.Basic); ok && b.Info()&types.IsUntyped != 0 {
					if vi, ok := v.(VInt); ok {
						vi.Untyped = true
						v = vi
					}
				}
				return v, true
			case *ssa.Global:
				elem := g.Type().(*types.Pointer).Elem()
				if isErrorType(elem) {
					return VErr{env.e.sentinel(g.Pkg.Pkg.Path() + "." + g.Name())}, true
				}
				pv := env.e.globalValue(env.st, g).(VPtr)
				return env.e.load(env.st, pv.Loc, elem), true
			}
		}
	}
	return nil, false
}

// qualified resolves pkg.Name for imported packages.
func (env *Env) qualified(pkgName, name string) (Value, bool) {
	p := env.pkg()
	if p == nil {
		return nil, false
	}
	imps := append([]*types.Package(nil), p.Pkg.Imports()...)
	// a contract may name an error sentinel of a package its own Go package
	// does not import (e.g. os.ErrNotExist in an interface contract of types)
	have := false
	for _, imp := range imps {
		if imp.Name() == pkgName {
			have = true
		}
	}
	if !have {
		var best *types.Package
		for _, sp := range env.e.prog.prog.AllPackages() {
			if sp.Pkg.Name() == pkgName && !strings.Contains(sp.Pkg.Path(), "internal/") && !strings.Contains(sp.Pkg.Path(), "vendor/") {
				if best == nil || len(sp.Pkg.Path()) < len(best.Path()) || (len(sp.Pkg.Path()) == len(best.Path()) && sp.Pkg.Path() < best.Path()) {
					best = sp.Pkg
				}
			}
		}
		if best != nil {
			imps = append(imps, best)
		}
	}
	for _, imp := range imps {
		if imp.Name() == pkgName {
			obj := imp.Scope().Lookup(name)
			if obj == nil {
				return nil, false
			}
			switch o := obj.(type) {
			case *types.Var:
				if isErrorType(o.Type()) {
					return VErr{env.e.sentinel(imp.Path() + "." + name)}, true
				}
			case *types.Const:
				if w, signed, ok := intInfo(o.Type()); ok {
					sp := env.e.prog.prog.ImportedPackage(imp.Path())
					if sp != nil {
						if nc, ok := sp.Members[name].(*ssa.NamedConst); ok {
							return env.e.constVal(nc.Value), true
						}
					}
					_ = w
					_ = signed
				}
			}
		}
	}
	return nil, false
}

func (env *Env) eval(x Expr) Value {
	e := env.e
	switch n := x.(type) {
	case *EInt:
		return VInt{T: BVConst(64, n.V), Signed: true, Untyped: true}
	case *EBool:
		if n.V {
			return VBool{True}
		}
		return VBool{False}
	case *ENil:
		return VNilLit{}
	case *EStr:
		s := n.V
		return VStr{T: e.strConst(s), Lit: &s}
	case *EIdent:
		if v, ok := env.lookupIdent(n.Name); ok {
			return v
		}
		env.fail("unknown identifier %q", n.Name)
	case *EOld:
		o := env.sub()
		o.st = env.old
		o.isOld = true
		if env.old == nil {
			env.fail("old() used without a pre-state")
		}
		return o.eval(n.X)
	case *EUn:
		switch n.Op {
		case "()":
			return env.eval(n.X)
		case "!":
			f := env.sub()
			f.pos = !env.pos
			return VBool{Not(f.evalBool(n.X))}
		case "-":
			v := env.evalInt(n.X)
			return VInt{T: BVNeg(v.T), Signed: true, Untyped: v.Untyped}
		case "^":
			v := env.evalInt(n.X)
			return VInt{T: BVNot(v.T), Signed: v.Signed, Untyped: v.Untyped}
		}
	case *EBin:
		return env.evalBin(n)
	case *ESel:
		// package-qualified
		if id, ok := n.X.(*EIdent); ok {
			if _, isVar := env.lookupIdent(id.Name); !isVar {
				if v, ok := env.qualified(id.Name, n.Name); ok {
					return v
				}
				env.fail("unknown qualified identifier %s.%s", id.Name, n.Name)
			}
		}
		return env.selectField(env.eval(n.X), n.Name)
	case *EIndex:
		base := env.eval(n.X)
		idx := env.evalInt(n.I)
		it, _ := toIndex(coerceUntyped(idx, 64, true))
		switch s := base.(type) {
		case VSlice:
			if s.Reg == nil {
				// element of a definitely-nil slice: an arbitrary value (such a term is
				// only meaningful under a guard 0 <= i < len, which is false here)
				if s.Elem == nil {
					env.fail("index of nil slice")
				}
				return e.materialize(e.freshName("nilelem"), s.Elem)
			}
			return e.readElem(env.st, s.Reg, BVBin("bvadd", s.Base, it), nil, s.Elem)
		case VArr:
			return e.readElem(env.st, s.Reg, it, nil, s.Reg.Elem)
		case VMap:
			return e.mapGet(env.st, s, idx)
		}
		env.fail("index of %T", base)
	case *ESlice:
		base := env.eval(n.X)
		s, ok := base.(VSlice)
		if !ok {
			if a, isA := base.(VArr); isA {
				s = VSlice{Nil: False, Reg: a.Reg, Base: i64(0), Len: i64(a.N), Cap: i64(a.N), Elem: a.Reg.Elem}
			} else {
				env.fail("slice of %T", base)
			}
		}
		lo := i64(0)
		hi := s.Len
		if n.Lo != nil {
			lo, _ = toIndex(coerceUntyped(env.evalInt(n.Lo), 64, true))
		}
		if n.Hi != nil {
			hi, _ = toIndex(coerceUntyped(env.evalInt(n.Hi), 64, true))
		}
		return VSlice{Nil: s.Nil, Reg: s.Reg, Base: BVBin("bvadd", s.Base, lo), Len: BVBin("bvsub", hi, lo), Cap: BVBin("bvsub", s.Cap, lo), Elem: s.Elem}
	case *ECall:
		return env.evalCall(n)
	case *EQuant:
		return env.evalQuant(n)
	}
	env.fail("cannot evaluate expression %T", x)
	return nil
}

// VNilLit is the untyped nil of contract expressions.
type VNilLit struct{}

func coerceUntyped(v VInt, w int, signed bool) VInt {
	if v.T.Sort.W == w {
		return VInt{T: v.T, Signed: signed}
	}
	if v.Untyped || v.T.Const {
		return VInt{T: BVConst(w, v.T.V), Signed: signed}
	}
	if v.Signed {
		return VInt{T: SignExt(v.T, w), Signed: signed}
	}
	return VInt{T: ZeroExt(v.T, w), Signed: signed}
}

func (env *Env) selectField(v Value, name string) Value {
	e := env.e
	switch x := v.(type) {
	case VPtr:
		if x.Loc == nil {
			// field of a definitely-nil pointer: arbitrary value (contracts guard
			// such terms by an implication)
			return env.selectField(e.materialize(e.freshName("nilfield"), x.Elem), name)
		}
		return env.selectField(e.load(env.st, x.Loc, x.Elem), name)
	case VStruct:
		st := structOf(x.Typ)
		for i := 0; i < st.NumFields(); i++ {
			if st.Field(i).Name() == name {
				return e.fieldOf(x, i)
			}
		}
		// promoted fields through embedded structs
		for i := 0; i < st.NumFields(); i++ {
			if st.Field(i).Embedded() {
				if sub, ok := e.fieldOf(x, i).(VStruct); ok {
					ss := structOf(sub.Typ)
					for j := 0; j < ss.NumFields(); j++ {
						if ss.Field(j).Name() == name {
							return e.fieldOf(sub, j)
						}
					}
				}
			}
		}
		// abstract field of an interface-level view, defined for this concrete
		// type by a `coupling` declaration
		if nt := namedOf(x.Typ); nt != nil && nt.Obj().Pkg() != nil {
			if cp := e.prog.contracts.Couplings[nt.Obj().Pkg().Name()+"."+nt.Obj().Name()][name]; cp != nil {
				if env.depth > 40 {
					env.fail("coupling %s.%s: recursion", cp.Type, name)
				}
				c := env.sub()
				c.vars = map[string]Value{"self": x}
				c.pkgName = nt.Obj().Pkg().Name()
				c.fr = nil
				c.depth = env.depth + 1
				e.couplingsUsed[cp.Type+"."+name+" = "+cp.Src] = true
				return c.eval(cp.E)
			}
		}
		env.fail("no field %s in %s", name, x.Typ)
	case VIface:
		if x.Dyn != nil {
			return env.selectField(x.Val, name)
		}
		if x.Obj == nil {
			// ghost state of the nil interface: an arbitrary value (such a term is
			// only meaningful under a guard that excludes nil; in goal position an
			// unconstrained value cannot help a proof, as an assumption it says nothing)
			switch ghostKinds[name] {
			case "bool":
				return VBool{e.fresh("nilghost", BoolSort)}
			case "int":
				return VInt{T: e.fresh("nilghost", BV64), Signed: true}
			case "uint64":
				return VInt{T: e.fresh("nilghost", BV64)}
			case "error":
				return VErr{e.fresh("nilghost", BV32)}
			}
			env.fail("ghost field %s of nil interface", name)
		}
		return e.ghostGet(env.st, x.Obj, name)
	case VSlice:
		switch name {
		case "len":
			return VInt{T: x.Len, Signed: true}
		case "cap":
			return VInt{T: x.Cap, Signed: true}
		}
	case VTuple:
		var i int
		if _, err := fmt.Sscanf(name, "_%d", &i); err == nil && i < len(x.E) {
			return x.E[i]
		}
	}
	env.fail("cannot select %s from %T", name, v)
	return nil
}

func (env *Env) evalBin(n *EBin) Value {
	switch n.Op {
	case "&&":
		lt := env.evalBool(n.L)
		if (lt.Const && lt.V == 0) || env.pcHas(Not(lt)) {
			return VBool{False}
		}
		return VBool{And(lt, env.evalBool(n.R))}
	case "||":
		lt := env.evalBool(n.L)
		if (lt.Const && lt.V == 1) || env.pcHas(lt) {
			return VBool{True}
		}
		return VBool{Or(lt, env.evalBool(n.R))}
	case "==>":
		l := env.sub()
		l.pos = !env.pos
		lt := l.evalBool(n.L)
		// short-circuit: the antecedent is false on this path (syntactically
		// or by a literal conjunct of the path condition); the consequent may
		// mention values that do not exist on this path (nil results)
		if (lt.Const && lt.V == 0) || env.pcHas(Not(lt)) {
			return VBool{True}
		}
		return VBool{Implies(lt, env.evalBool(n.R))}
	case "<==>":
		// mixed polarity: evaluate both sides as assumptions-style quantifiers
		l := env.sub()
		l.pos = false
		return VBool{Eq(l.evalBool(n.L), l.evalBool(n.R))}
	}
	lv := env.eval(n.L)
	rv := env.eval(n.R)
	// nil comparisons
	if _, ok := rv.(VNilLit); ok {
		nl, ok := nilOf(lv)
		if !ok {
			env.fail("comparison of %T with nil", lv)
		}
		if n.Op == "==" {
			return VBool{nl}
		}
		return VBool{Not(nl)}
	}
	if _, ok := lv.(VNilLit); ok {
		nr, ok := nilOf(rv)
		if !ok {
			env.fail("comparison of nil with %T", rv)
		}
		if n.Op == "==" {
			return VBool{nr}
		}
		return VBool{Not(nr)}
	}
	switch a := lv.(type) {
	case VBool:
		b, ok := rv.(VBool)
		if !ok {
			env.fail("bool %s %T", n.Op, rv)
		}
		switch n.Op {
		case "==":
			return VBool{Eq(a.T, b.T)}
		case "!=":
			return VBool{Ne(a.T, b.T)}
		}
	case VErr:
		b, ok := rv.(VErr)
		if !ok {
			env.fail("error %s %T", n.Op, rv)
		}
		switch n.Op {
		case "==":
			return VBool{Eq(a.T, b.T)}
		case "!=":
			return VBool{Ne(a.T, b.T)}
		}
	case VStr:
		b, ok := rv.(VStr)
		if ok {
			switch n.Op {
			case "==":
				return VBool{Eq(a.T, b.T)}
			case "!=":
				return VBool{Ne(a.T, b.T)}
			}
		}
	case VOpaque:
		if b, ok := rv.(VOpaque); ok {
			switch n.Op {
			case "==":
				return VBool{Eq(a.T, b.T)}
			case "!=":
				return VBool{Ne(a.T, b.T)}
			}
		}
		if b, ok := rv.(VInt); ok {
			bb := coerceUntyped(b, 64, false)
			switch n.Op {
			case "==":
				return VBool{Eq(a.T, bb.T)}
			case "!=":
				return VBool{Ne(a.T, bb.T)}
			}
		}
	case VPtr, VIface, VFunc:
		eq := env.e.refEq(lv, rv)
		switch n.Op {
		case "==":
			return VBool{eq}
		case "!=":
			return VBool{Not(eq)}
		}
	case VInt:
		b, ok := rv.(VInt)
		if !ok {
			env.fail("integer %s %T", n.Op, rv)
		}
		// coerce untyped
		switch {
		case a.Untyped && !b.Untyped:
			a = coerceUntyped(a, b.T.Sort.W, b.Signed)
		case b.Untyped && !a.Untyped:
			b = coerceUntyped(b, a.T.Sort.W, a.Signed)
		}
		if a.T.Sort.W != b.T.Sort.W {
			env.fail("integer width mismatch in %s: %d vs %d bits (add a conversion)", n.Op, a.T.Sort.W, b.T.Sort.W)
		}
		if !a.Untyped && !b.Untyped && a.Signed != b.Signed {
			if n.Op != "==" && n.Op != "!=" {
				env.fail("mixed signedness in %s (add a conversion)", n.Op)
			}
		}
		ut := a.Untyped && b.Untyped
		s := a.Signed
		mk := func(t T) Value { return VInt{T: t, Signed: s, Untyped: ut} }
		switch n.Op {
		case "+":
			return mk(BVBin("bvadd", a.T, b.T))
		case "-":
			return mk(BVBin("bvsub", a.T, b.T))
		case "*":
			return mk(BVBin("bvmul", a.T, b.T))
		case "/":
			if s {
				return mk(BVBin("bvsdiv", a.T, b.T))
			}
			return mk(BVBin("bvudiv", a.T, b.T))
		case "%":
			if s {
				return mk(BVBin("bvsrem", a.T, b.T))
			}
			return mk(BVBin("bvurem", a.T, b.T))
		case "&":
			return mk(BVBin("bvand", a.T, b.T))
		case "|":
			return mk(BVBin("bvor", a.T, b.T))
		case "^":
			return mk(BVBin("bvxor", a.T, b.T))
		case "&^":
			return mk(BVBin("bvand", a.T, BVNot(b.T)))
		case "<<":
			return mk(BVBin("bvshl", a.T, b.T))
		case ">>":
			if s {
				return mk(app(a.T.Sort, "bvashr", a.T, b.T))
			}
			return mk(BVBin("bvlshr", a.T, b.T))
		case "==":
			return VBool{Eq(a.T, b.T)}
		case "!=":
			return VBool{Ne(a.T, b.T)}
		case "<":
			return VBool{BVCmp(pick(s, "bvslt", "bvult"), a.T, b.T)}
		case "<=":
			return VBool{BVCmp(pick(s, "bvsle", "bvule"), a.T, b.T)}
		case ">":
			return VBool{BVCmp(pick(s, "bvsgt", "bvugt"), a.T, b.T)}
		case ">=":
			return VBool{BVCmp(pick(s, "bvsge", "bvuge"), a.T, b.T)}
		}
	}
	env.fail("unsupported operation %T %s %T", lv, n.Op, rv)
	return nil
}

var quantTypes = map[string]struct {
	w      int
	signed bool
}{
	"int": {64, true}, "int64": {64, true}, "uint64": {64, false}, "uint32": {32, false}, "int32": {32, true},
	"uint8": {8, false}, "byte": {8, false}, "uint16": {16, false}, "uint": {64, false},
}

func (env *Env) evalQuant(n *EQuant) Value {
	qt, ok := quantTypes[n.Typ]
	if !ok {
		env.fail("unsupported quantified type %s", n.Typ)
	}
	sub := env.sub()
	skolem := (n.Forall && env.pos) || (!n.Forall && !env.pos)
	var vars []T
	for _, v := range n.Vars {
		if skolem {
			t := env.e.fresh("sk_"+v, BVSort(qt.w))
			sub.vars[v] = VInt{T: t, Signed: qt.signed}
		} else {
			env.e.nbound++
			t := Sym(fmt.Sprintf("%s!q%d", v, env.e.nbound), BVSort(qt.w))
			vars = append(vars, t)
			sub.vars[v] = VInt{T: t, Signed: qt.signed}
		}
	}
	body := sub.evalBool(n.Body)
	if skolem {
		return VBool{body}
	}
	var pats []T
	for _, p := range n.Pats {
		pv := sub.eval(p)
		switch x := pv.(type) {
		case VInt:
			pats = append(pats, x.T)
		case VBool:
			pats = append(pats, x.T)
		}
	}
	if n.Forall {
		return VBool{Forall(vars, body, pats...)}
	}
	// exists in goal position (rare): emit as not forall not
	return VBool{Not(Forall(vars, Not(body), pats...))}
}

func (env *Env) sliceArg(x Expr) VSlice {
	v := env.eval(x)
	switch s := v.(type) {
	case VSlice:
		return s
	case VArr:
		return VSlice{Nil: False, Reg: s.Reg, Base: i64(0), Len: i64(s.N), Cap: i64(s.N), Elem: s.Reg.Elem}
	case VPtr:
		if s.Loc != nil {
			if a, ok := env.e.load(env.st, s.Loc, s.Elem).(VArr); ok {
				return VSlice{Nil: False, Reg: a.Reg, Base: i64(0), Len: i64(a.N), Cap: i64(a.N), Elem: a.Reg.Elem}
			}
		}
	}
	env.fail("expected slice argument, got %T", v)
	return VSlice{}
}

func (env *Env) idx64(x Expr) T {
	t, _ := toIndex(coerceUntyped(env.evalInt(x), 64, true))
	return t
}

func (env *Env) byteArr(s VSlice) T {
	if s.Reg == nil {
		return env.e.fresh("nilarr", ByteArr)
	}
	es, ok := elemSort(s.Elem)
	if !ok {
		env.fail("slice of non-scalar elements")
	}
	return env.e.regArr(env.st, s.Reg, "", es)
}

func leLoad(arr T, off T, nbytes int) T {
	var t T
	for i := 0; i < nbytes; i++ {
		b := Select(arr, BVBin("bvadd", off, i64(int64(i))))
		if i == 0 {
			t = b
		} else {
			t = Concat(b, t)
		}
	}
	return t
}

func (env *Env) evalCall(n *ECall) Value {
	e := env.e
	argn := func(k int) {
		if len(n.Args) != k {
			env.fail("%s expects %d arguments", n.Fn, k)
		}
	}
	switch n.Fn {
	case "len":
		argn(1)
		v := env.eval(n.Args[0])
		switch s := v.(type) {
		case VSlice:
			return VInt{T: s.Len, Signed: true}
		case VArr:
			return VInt{T: i64(s.N), Signed: true}
		case VMap:
			return VInt{T: e.mapLen(env.st, s), Signed: true}
		case VStr:
			if s.Lit != nil {
				return VInt{T: i64(int64(len(*s.Lit))), Signed: true}
			}
		}
		env.fail("len of %T", v)
	case "cap":
		argn(1)
		return VInt{T: env.sliceArg(n.Args[0]).Cap, Signed: true}
	case "int", "int64":
		argn(1)
		return coerceUntyped(env.evalInt(n.Args[0]), 64, true)
	case "uint64", "uint":
		argn(1)
		return coerceUntyped(env.evalInt(n.Args[0]), 64, false)
	case "uint32":
		argn(1)
		return coerceUntyped(env.evalInt(n.Args[0]), 32, false)
	case "int32":
		argn(1)
		return coerceUntyped(env.evalInt(n.Args[0]), 32, true)
	case "uint16":
		argn(1)
		return coerceUntyped(env.evalInt(n.Args[0]), 16, false)
	case "uint8", "byte":
		argn(1)
		return coerceUntyped(env.evalInt(n.Args[0]), 8, false)
	case "ite":
		argn(3)
		c := env.evalBool(n.Args[0])
		a := env.eval(n.Args[1])
		b := env.eval(n.Args[2])
		switch x := a.(type) {
		case VInt:
			y := b.(VInt)
			if x.Untyped && !y.Untyped {
				x = coerceUntyped(x, y.T.Sort.W, y.Signed)
			} else if y.Untyped && !x.Untyped {
				y = coerceUntyped(y, x.T.Sort.W, x.Signed)
			}
			return VInt{T: Ite(c, x.T, y.T), Signed: x.Signed}
		case VBool:
			return VBool{Ite(c, x.T, b.(VBool).T)}
		case VErr:
			return VErr{Ite(c, x.T, b.(VErr).T)}
		}
		env.fail("ite over %T", a)
	case "LE16", "LE32", "LE64":
		argn(2)
		s := env.sliceArg(n.Args[0])
		off := BVBin("bvadd", s.Base, env.idx64(n.Args[1]))
		nb := map[string]int{"LE16": 2, "LE32": 4, "LE64": 8}[n.Fn]
		return VInt{T: leLoad(env.byteArr(s), off, nb), Signed: false}
	case "zero":
		// zero(s, lo, hi): all bytes of s[lo:hi) are 0 (quantified over the absolute region index)
		argn(3)
		s := env.sliceArg(n.Args[0])
		arr := env.byteArr(s)
		lo, hi := BVBin("bvadd", s.Base, env.idx64(n.Args[1])), BVBin("bvadd", s.Base, env.idx64(n.Args[2]))
		return env.rangeForall(func(j T) T {
			sel := Select(arr, j)
			return Eq(sel, BVConst(sel.Sort.W, 0))
		}, lo, hi, func(j T) T { return Select(arr, j) })
	case "eqbytes":
		// eqbytes(a, alo, b, blo, n): a[alo+k]==b[blo+k] for 0<=k<n
		argn(5)
		a := env.sliceArg(n.Args[0])
		alo := BVBin("bvadd", a.Base, env.idx64(n.Args[1]))
		b := env.sliceArg(n.Args[2])
		blo := BVBin("bvadd", b.Base, env.idx64(n.Args[3]))
		cnt := env.idx64(n.Args[4])
		aa, ba := env.byteArr(a), env.byteArr(b)
		// indexed by the absolute position in a
		va := env.rangeForall(func(j T) T {
			return Eq(Select(aa, j), Select(ba, BVBin("bvadd", blo, BVBin("bvsub", j, alo))))
		}, alo, BVBin("bvadd", alo, cnt), func(j T) T { return Select(aa, j) })
		if env.pos {
			return va
		}
		// as an assumption also state it indexed by the absolute position in b
		vb := env.rangeForall(func(j T) T {
			return Eq(Select(ba, j), Select(aa, BVBin("bvadd", alo, BVBin("bvsub", j, blo))))
		}, blo, BVBin("bvadd", blo, cnt), func(j T) T { return Select(ba, j) })
		return VBool{And(va.(VBool).T, vb.(VBool).T)}
	case "crc":
		// crc(init, s, lo, hi) = crc32.Update(init, castagnoli, s[lo:hi])
		argn(4)
		init := coerceUntyped(env.evalInt(n.Args[0]), 32, false)
		s := env.sliceArg(n.Args[1])
		lo, hi := env.idx64(n.Args[2]), env.idx64(n.Args[3])
		e.specFns["crcU"] = true
		return VInt{T: UF("crcU", BV32, init.T, env.byteArr(s), BVBin("bvadd", s.Base, lo), BVBin("bvadd", s.Base, hi)), Signed: false}
	case "errors.Is":
		argn(2)
		a, ok1 := env.eval(n.Args[0]).(VErr)
		b, ok2 := env.eval(n.Args[1]).(VErr)
		if !ok1 || !ok2 {
			env.fail("errors.Is on non-error values")
		}
		return VBool{e.errIs(a.T, b.T)}
	case "fresh":
		argn(1)
		s := env.sliceArg(n.Args[0])
		if s.Reg == nil {
			return VBool{s.Nil}
		}
		if e.freshRegs[s.Reg] {
			return VBool{True}
		}
		if _, pre := e.lazyRegs[s.Reg.Name]; pre && !strings.Contains(s.Reg.Name, "~c") && !strings.Contains(s.Reg.Name, "!c") {
			// a region of the unit's pre-state is never fresh
			return VBool{False}
		}
		// regions returned by callees: freshness is a predicate of the region
		// that callee contracts may assert
		return VBool{e.declare("isfresh!"+s.Reg.Name, BoolSort)}
	case "sameregion":
		argn(2)
		a, b := env.sliceArg(n.Args[0]), env.sliceArg(n.Args[1])
		if a.Reg == b.Reg {
			return VBool{True}
		}
		if !env.pos {
			return VBool{e.fresh("sameregion?", BoolSort)}
		}
		return VBool{False}
	case "iszero":
		argn(1)
		v := env.eval(n.Args[0])
		if o, ok := v.(VOpaque); ok {
			return VBool{Eq(o.T, BVConst(64, 0))}
		}
		env.fail("iszero of %T", v)
	case "traced":
		// traced("a","b",...) : the ghost event trace contains these events as a subsequence
		if !env.pos && env.atCallSite {
			// a callee's event facts say nothing about the caller's own trace
			return VBool{e.fresh("traced?", BoolSort)}
		}
		var want []string
		for _, a := range n.Args {
			s, ok := a.(*EStr)
			if !ok {
				env.fail("traced expects string literals")
			}
			want = append(want, s.V)
		}
		i := 0
		for _, ev := range env.st.Trace {
			if i < len(want) && ev == want[i] {
				i++
			}
		}
		if i == len(want) {
			return VBool{True}
		}
		return VBool{False}
	case "nevent":
		argn(1)
		if !env.pos && env.atCallSite {
			return VInt{T: e.fresh("nevent?", BV64), Signed: true}
		}
		s, ok := n.Args[0].(*EStr)
		if !ok {
			env.fail("nevent expects a string literal")
		}
		c := 0
		for _, ev := range env.st.Trace {
			if ev == s.V {
				c++
			}
		}
		return VInt{T: i64(int64(c)), Signed: true, Untyped: true}
	case "effect":
		argn(1)
		if !env.pos && env.atCallSite {
			return VBool{e.fresh("effect?", BoolSort)}
		}
		s, ok := n.Args[0].(*EStr)
		if !ok {
			env.fail("effect expects a string literal")
		}
		for _, ev := range env.st.Effects {
			if ev == s.V || strings.HasPrefix(ev, s.V) {
				return VBool{True}
			}
		}
		return VBool{False}
	}
	if h, ok := specFuncs[n.Fn]; ok {
		return h(env, n)
	}
	// predicates
	if p, ok := e.prog.contracts.Preds[env.predKey(n.Fn)]; ok {
		if len(p.Params) != len(n.Args) {
			env.fail("predicate %s expects %d arguments", n.Fn, len(p.Params))
		}
		if env.depth > 20 {
			env.fail("predicate expansion too deep")
		}
		sub := env.sub()
		sub.depth = env.depth + 1
		// predicate bodies see only their parameters (plus globals)
		sub.vars = map[string]Value{}
		sub.fr = nil
		for i, pn := range p.Params {
			sub.vars[pn] = env.eval(n.Args[i])
		}
		return sub.eval(p.Body)
	}
	env.fail("unknown function %s", n.Fn)
	return nil
}

func (env *Env) predKey(name string) string {
	if strings.Contains(name, ".") {
		return name
	}
	pn := env.pkgName
	if pn == "" && env.e.fn != nil && env.e.fn.Pkg != nil {
		pn = env.e.fn.Pkg.Pkg.Name()
	}
	return pn + "." + name
}

// rangeForall builds forall k in [lo,hi): body(k), skolemised in goal position.
func (env *Env) rangeForall(body func(k T) T, lo, hi T, pat func(k T) T) Value {
	if env.pos {
		k := env.e.fresh("sk_k", BV64)
		return VBool{Implies(And(BVCmp("bvsle", lo, k), BVCmp("bvslt", k, hi)), body(k))}
	}
	env.e.nbound++
	k := Sym(fmt.Sprintf("k!q%d", env.e.nbound), BV64)
	return VBool{Forall([]T{k}, Implies(And(BVCmp("bvsle", lo, k), BVCmp("bvslt", k, hi)), body(k)), pat(k))}
}

// specFuncs are additional contract-language functions registered elsewhere.
var specFuncs = map[string]func(env *Env, n *ECall) Value{}

// havocTarget havocs one `assigns` target.
func (env *Env) havocTarget(a AssignTarget, tag string, pre *State) {
	e := env.e
	// locations and ranges are those of the pre-call state
	penv := env.sub()
	if pre != nil {
		penv.st = pre
		penv.old = pre
	}
	switch x := a.E.(type) {
	case *ESlice:
		// s[lo:hi] content
		s := penv.sliceArg(x.X)
		if s.Reg == nil {
			return
		}
		es, ok := elemSort(s.Elem)
		if !ok {
			e.havocRegion(env.st, s.Reg, tag)
			return
		}
		lo, hi := i64(0), s.Len
		if x.Lo != nil {
			lo = penv.idx64(x.Lo)
		}
		if x.Hi != nil {
			hi = penv.idx64(x.Hi)
		}
		old := e.regArr(env.st, s.Reg, "", es)
		na := e.declare(fmt.Sprintf("%s@mem~%s_%d", s.Reg.Name, tag, e.nfresh), old.Sort)
		e.nfresh++
		e.nbound++
		k := Sym(fmt.Sprintf("k!q%d", e.nbound), BV64)
		alo, ahi := BVBin("bvadd", s.Base, lo), BVBin("bvadd", s.Base, hi)
		outside := Or(BVCmp("bvslt", k, alo), BVCmp("bvsge", k, ahi))
		env.st.assume(Forall([]T{k}, Implies(outside, Eq(Select(na, k), Select(old, k))), Select(na, k)))
		e.setRegArr(env.st, s.Reg, "", na)
		return
	case *ECall:
		if x.Fn == "mem" && len(x.Args) == 1 {
			s := penv.sliceArg(x.Args[0])
			if s.Reg != nil {
				e.havocRegion(env.st, s.Reg, tag)
			}
			return
		}
		if x.Fn == "reslice" && len(x.Args) == 1 {
			// the slice variable is re-sliced from the same start: same region
			// and base, arbitrary len/cap
			sel, ok := x.Args[0].(*ESel)
			if !ok {
				env.fail("reslice expects a field selector")
			}
			loc := env.locOf(sel)
			if loc == nil {
				env.fail("reslice: cannot resolve %s", a.Src)
			}
			cur, ok := e.load(env.st, loc, nil).(VSlice)
			if !ok {
				env.fail("reslice: %s is not a slice", a.Src)
			}
			// the new value is a sub-slice of the old one's capacity window
			bs := e.declare(fmt.Sprintf("%s?base~%s", loc.String(), tag), BV64)
			ln := e.declare(fmt.Sprintf("%s?len~%s", loc.String(), tag), BV64)
			cp := e.declare(fmt.Sprintf("%s?cap~%s", loc.String(), tag), BV64)
			env.st.assume(And(BVCmp("bvsle", i64(0), ln), BVCmp("bvsle", ln, cp), BVCmp("bvslt", cp, i64(1<<maxLenBits)),
				BVCmp("bvsle", cur.Base, bs), BVCmp("bvsle", bs, BVBin("bvadd", cur.Base, cur.Cap)),
				BVCmp("bvsle", BVBin("bvadd", bs, cp), BVBin("bvadd", cur.Base, cur.Cap))))
			e.storeLoc(env.st, loc, VSlice{Nil: cur.Nil, Reg: cur.Reg, Base: bs, Len: ln, Cap: cp, Elem: cur.Elem})
			return
		}
		if x.Fn == "ghost" {
			for _, ga := range x.Args {
				if id, ok := ga.(*EIdent); ok {
					if old, ok := env.st.Ghost[id.Name]; ok {
						env.st.Ghost[id.Name] = e.havocLike(old, id.Name+"~"+tag)
					}
				}
			}
			return
		}
	case *ESel:
		base := env.eval(x.X)
		switch b := base.(type) {
		case VPtr:
			if b.Loc == nil {
				return
			}
			holder := e.load(env.st, b.Loc, b.Elem)
			vs, ok := holder.(VStruct)
			if !ok {
				env.fail("assigns target %s: not a struct", a.Src)
			}
			stt := structOf(vs.Typ)
			for i := 0; i < stt.NumFields(); i++ {
				if stt.Field(i).Name() == x.Name {
					loc := b.Loc.field(i)
					if at, ok := e.atomicType(vs.Typ, stt.Field(i)); ok {
						e.storeLoc(env.st, loc, VIface{Nil: False, Dyn: at, Val: e.materialize(fmt.Sprintf("%s~%s.v", loc.String(), tag), at), Typ: stt.Field(i).Type()})
						return
					}
					e.storeLoc(env.st, loc, e.materialize(fmt.Sprintf("%s~%s", loc.String(), tag), stt.Field(i).Type()))
					return
				}
			}
		case VIface:
			if b.Obj != nil {
				e.ghostHavoc(env.st, b.Obj, x.Name, tag)
				return
			}
		case VStruct:
			// field of a struct held in a cell: find the cell via the inner selector
			if inner, ok := x.X.(*ESel); ok {
				loc := env.locOf(inner)
				if loc != nil {
					stt := structOf(b.Typ)
					for i := 0; i < stt.NumFields(); i++ {
						if stt.Field(i).Name() == x.Name {
							l2 := loc.field(i)
							e.storeLoc(env.st, l2, e.materialize(fmt.Sprintf("%s~%s", l2.String(), tag), stt.Field(i).Type()))
							return
						}
					}
				}
			}
		}
	case *EIdent:
		if strings.HasPrefix(x.Name, "g_") {
			e.nfresh++
			env.st.Ghost[x.Name] = VInt{T: e.declare(fmt.Sprintf("%s~%s_%d", x.Name, tag, e.nfresh), BV64), Signed: true}
			env.st.Writes["ghost:"+x.Name] = true
			return
		}
		// a captured variable of a closure: havoc its cell
		if env.fr != nil {
			for _, fv := range env.fr.Fn.FreeVars {
				if fv.Name() == x.Name {
					if p, ok := env.fr.Vals[fv].(VPtr); ok && p.Loc != nil {
						e.storeLoc(env.st, p.Loc, e.materialize(fmt.Sprintf("%s~%s", x.Name, tag), p.Elem))
						return
					}
				}
			}
		}
		// a pointer parameter: havoc the whole pointee
		v := env.eval(x)
		if p, ok := v.(VPtr); ok && p.Loc != nil {
			e.storeLoc(env.st, p.Loc, e.materialize(fmt.Sprintf("%s~%s", p.Loc.String(), tag), p.Elem))
			return
		}
	case *EUn:
		if x.Op == "*" {
		}
	}
	env.fail("unsupported assigns target %q", a.Src)
}

// locOf resolves a selector chain to a location.
func (env *Env) locOf(x *ESel) *Loc {
	e := env.e
	var baseLoc *Loc
	switch b := x.X.(type) {
	case *ESel:
		baseLoc = env.locOf(b)
		if baseLoc == nil {
			return nil
		}
		v := e.load(env.st, baseLoc, nil)
		if p, ok := v.(VPtr); ok {
			baseLoc = p.Loc
		}
	default:
		v := env.eval(x.X)
		p, ok := v.(VPtr)
		if !ok || p.Loc == nil {
			return nil
		}
		baseLoc = p.Loc
	}
	holder := e.load(env.st, baseLoc, nil)
	vs, ok := holder.(VStruct)
	if !ok {
		return nil
	}
	stt := structOf(vs.Typ)
	for i := 0; i < stt.NumFields(); i++ {
		if stt.Field(i).Name() == x.Name {
			return baseLoc.field(i)
		}
	}
	return nil
}
