package main

// SMT-LIB term construction with light simplification. Terms are strings plus
// a sort; integer-typed Go values are fixed-width bit-vectors (never
// mathematical integers).

import (
	"fmt"
	"sort"
	"strings"
)

type SortKind int

const (
	SBool SortKind = iota
	SBV
	SArr
)

type Sort struct {
	K    SortKind
	W    int   // SBV width
	Idx  *Sort // SArr
	Elem *Sort // SArr
}

func (s Sort) String() string {
	switch s.K {
	case SBool:
		return "Bool"
	case SBV:
		return fmt.Sprintf("(_ BitVec %d)", s.W)
	case SArr:
		return fmt.Sprintf("(Array %s %s)", s.Idx.String(), s.Elem.String())
	}
	return "?"
}

func (s Sort) Eq(o Sort) bool { return s.String() == o.String() }

var (
	BoolSort = Sort{K: SBool}
	BV8      = Sort{K: SBV, W: 8}
	BV16     = Sort{K: SBV, W: 16}
	BV32     = Sort{K: SBV, W: 32}
	BV64     = Sort{K: SBV, W: 64}
)

func BVSort(w int) Sort { return Sort{K: SBV, W: w} }
func ArrSort(idx, elem Sort) Sort {
	i, e := idx, elem
	return Sort{K: SArr, Idx: &i, Elem: &e}
}

var ByteArr = ArrSort(BV64, BV8)

// T is an SMT term.
type T struct {
	S     string
	Sort  Sort
	Const bool   // literal constant (bool or bv)
	V     uint64 // value when Const
	Op    string // "and" / "=>" for structured boolean terms (goal splitting)
	Args  []T
}

func (t T) String() string { return t.S }

var (
	True  = T{S: "true", Sort: BoolSort, Const: true, V: 1}
	False = T{S: "false", Sort: BoolSort, Const: true, V: 0}
)

func mask(w int) uint64 {
	if w >= 64 {
		return ^uint64(0)
	}
	return (uint64(1) << uint(w)) - 1
}

func BVConst(w int, v uint64) T {
	v &= mask(w)
	var s string
	if w%4 == 0 {
		s = fmt.Sprintf("#x%0*x", w/4, v)
	} else {
		s = fmt.Sprintf("(_ bv%d %d)", v, w)
	}
	return T{S: s, Sort: BVSort(w), Const: true, V: v}
}

func Sym(name string, s Sort) T { return T{S: name, Sort: s} }

func app(s Sort, op string, args ...T) T {
	var b strings.Builder
	b.WriteByte('(')
	b.WriteString(op)
	for _, a := range args {
		b.WriteByte(' ')
		b.WriteString(a.S)
	}
	b.WriteByte(')')
	return T{S: b.String(), Sort: s}
}

func Not(a T) T {
	if a.Const {
		if a.V == 0 {
			return True
		}
		return False
	}
	if strings.HasPrefix(a.S, "(not ") {
		return T{S: a.S[5 : len(a.S)-1], Sort: BoolSort}
	}
	return app(BoolSort, "not", a)
}

func And(as ...T) T {
	var xs []T
	for _, a := range as {
		if a.Const {
			if a.V == 0 {
				return False
			}
			continue
		}
		xs = append(xs, a)
	}
	switch len(xs) {
	case 0:
		return True
	case 1:
		return xs[0]
	}
	r := app(BoolSort, "and", xs...)
	r.Op = "and"
	r.Args = xs
	return r
}

func Or(as ...T) T {
	var xs []T
	for _, a := range as {
		if a.Const {
			if a.V == 1 {
				return True
			}
			continue
		}
		xs = append(xs, a)
	}
	switch len(xs) {
	case 0:
		return False
	case 1:
		return xs[0]
	}
	return app(BoolSort, "or", xs...)
}

func Implies(a, b T) T {
	if a.Const {
		if a.V == 1 {
			return b
		}
		return True
	}
	if b.Const {
		if b.V == 1 {
			return True
		}
		return Not(a)
	}
	r := app(BoolSort, "=>", a, b)
	r.Op = "=>"
	r.Args = []T{a, b}
	return r
}

// SplitGoal splits a goal into conjuncts (through implications) so that each
// piece becomes a separate, smaller obligation.
func SplitGoal(t T, max int) []T {
	var out []T
	var rec func(t T) []T
	rec = func(t T) []T {
		switch t.Op {
		case "and":
			var r []T
			for _, a := range t.Args {
				r = append(r, rec(a)...)
			}
			return r
		case "=>":
			var r []T
			for _, p := range rec(t.Args[1]) {
				r = append(r, Implies(t.Args[0], p))
			}
			return r
		}
		return []T{t}
	}
	out = rec(t)
	if len(out) > max || len(out) == 0 {
		return []T{t}
	}
	return out
}

func Iff(a, b T) T { return Eq(a, b) }

func Eq(a, b T) T {
	if !a.Sort.Eq(b.Sort) {
		panic(fmt.Sprintf("Eq sort mismatch: %s:%s vs %s:%s", a.S, a.Sort, b.S, b.Sort))
	}
	if a.Const && b.Const {
		if a.V == b.V {
			return True
		}
		return False
	}
	if a.S == b.S {
		return True
	}
	return app(BoolSort, "=", a, b)
}

func Ne(a, b T) T { return Not(Eq(a, b)) }

func Ite(c, a, b T) T {
	if c.Const {
		if c.V == 1 {
			return a
		}
		return b
	}
	if a.S == b.S {
		return a
	}
	if a.Sort.K == SBool && a.Const && b.Const {
		if a.V == 1 && b.V == 0 {
			return c
		}
		if a.V == 0 && b.V == 1 {
			return Not(c)
		}
	}
	return app(a.Sort, "ite", c, a, b)
}

func signExt(v uint64, w int) int64 {
	if w >= 64 {
		return int64(v)
	}
	if v&(uint64(1)<<uint(w-1)) != 0 {
		return int64(v | ^mask(w))
	}
	return int64(v)
}

// BVBin builds a binary bit-vector operation with constant folding.
func BVBin(op string, a, b T) T {
	if a.Sort.K != SBV || !a.Sort.Eq(b.Sort) {
		panic(fmt.Sprintf("BVBin %s sort mismatch: %s:%s vs %s:%s", op, a.S, a.Sort, b.S, b.Sort))
	}
	w := a.Sort.W
	if a.Const && b.Const {
		x, y := a.V, b.V
		switch op {
		case "bvadd":
			return BVConst(w, x+y)
		case "bvsub":
			return BVConst(w, x-y)
		case "bvmul":
			return BVConst(w, x*y)
		case "bvand":
			return BVConst(w, x&y)
		case "bvor":
			return BVConst(w, x|y)
		case "bvxor":
			return BVConst(w, x^y)
		case "bvudiv":
			if y != 0 {
				return BVConst(w, x/y)
			}
		case "bvurem":
			if y != 0 {
				return BVConst(w, x%y)
			}
		case "bvshl":
			if y >= uint64(w) {
				return BVConst(w, 0)
			}
			return BVConst(w, x<<y)
		case "bvlshr":
			if y >= uint64(w) {
				return BVConst(w, 0)
			}
			return BVConst(w, x>>y)
		case "bvsdiv":
			if y != 0 {
				sx, sy := signExt(x, w), signExt(y, w)
				if !(sy == -1 && sx == signExt(uint64(1)<<uint(w-1), w)) {
					return BVConst(w, uint64(sx/sy))
				}
			}
		case "bvsrem":
			if y != 0 {
				sx, sy := signExt(x, w), signExt(y, w)
				if sy != -1 {
					return BVConst(w, uint64(sx%sy))
				}
				return BVConst(w, 0)
			}
		}
	}
	// identities
	switch op {
	case "bvadd":
		if a.Const && a.V == 0 {
			return b
		}
		if b.Const && b.V == 0 {
			return a
		}
	case "bvsub":
		if b.Const && b.V == 0 {
			return a
		}
		if a.S == b.S {
			return BVConst(w, 0)
		}
	case "bvmul":
		if a.Const && a.V == 1 {
			return b
		}
		if b.Const && b.V == 1 {
			return a
		}
	}
	return app(a.Sort, op, a, b)
}

// BVCmp builds a comparison (bvult, bvule, bvslt, bvsle, ...).
func BVCmp(op string, a, b T) T {
	if a.Sort.K != SBV || !a.Sort.Eq(b.Sort) {
		panic(fmt.Sprintf("BVCmp %s sort mismatch: %s:%s vs %s:%s", op, a.S, a.Sort, b.S, b.Sort))
	}
	w := a.Sort.W
	if a.Const && b.Const {
		x, y := a.V, b.V
		sx, sy := signExt(x, w), signExt(y, w)
		var r bool
		switch op {
		case "bvult":
			r = x < y
		case "bvule":
			r = x <= y
		case "bvugt":
			r = x > y
		case "bvuge":
			r = x >= y
		case "bvslt":
			r = sx < sy
		case "bvsle":
			r = sx <= sy
		case "bvsgt":
			r = sx > sy
		case "bvsge":
			r = sx >= sy
		}
		if r {
			return True
		}
		return False
	}
	return app(BoolSort, op, a, b)
}

func BVNot(a T) T {
	if a.Const {
		return BVConst(a.Sort.W, ^a.V)
	}
	return app(a.Sort, "bvnot", a)
}

func BVNeg(a T) T {
	if a.Const {
		return BVConst(a.Sort.W, -a.V)
	}
	return app(a.Sort, "bvneg", a)
}

func ZeroExt(a T, to int) T {
	if a.Sort.W == to {
		return a
	}
	if a.Sort.W > to {
		return Extract(a, to-1, 0)
	}
	if a.Const {
		return BVConst(to, a.V)
	}
	return T{S: fmt.Sprintf("((_ zero_extend %d) %s)", to-a.Sort.W, a.S), Sort: BVSort(to)}
}

func SignExt(a T, to int) T {
	if a.Sort.W == to {
		return a
	}
	if a.Sort.W > to {
		return Extract(a, to-1, 0)
	}
	if a.Const {
		return BVConst(to, uint64(signExt(a.V, a.Sort.W)))
	}
	return T{S: fmt.Sprintf("((_ sign_extend %d) %s)", to-a.Sort.W, a.S), Sort: BVSort(to)}
}

func Extract(a T, hi, lo int) T {
	w := hi - lo + 1
	if a.Const {
		return BVConst(w, a.V>>uint(lo))
	}
	if lo == 0 && w == a.Sort.W {
		return a
	}
	return T{S: fmt.Sprintf("((_ extract %d %d) %s)", hi, lo, a.S), Sort: BVSort(w)}
}

func Concat(hi, lo T) T {
	w := hi.Sort.W + lo.Sort.W
	if hi.Const && lo.Const && w <= 64 {
		return BVConst(w, hi.V<<uint(lo.Sort.W)|lo.V)
	}
	return T{S: fmt.Sprintf("(concat %s %s)", hi.S, lo.S), Sort: BVSort(w)}
}

func Select(a, i T) T {
	if a.Sort.K != SArr {
		panic("Select on non-array " + a.S)
	}
	if !a.Sort.Idx.Eq(i.Sort) {
		panic(fmt.Sprintf("Select index sort mismatch %s: %s vs %s", a.S, a.Sort.Idx, i.Sort))
	}
	return app(*a.Sort.Elem, "select", a, i)
}

func Store(a, i, v T) T {
	if a.Sort.K != SArr || !a.Sort.Idx.Eq(i.Sort) || !a.Sort.Elem.Eq(v.Sort) {
		panic(fmt.Sprintf("Store sort mismatch: %s[%s:%s] = %s:%s", a.Sort, i.S, i.Sort, v.S, v.Sort))
	}
	return app(a.Sort, "store", a, i, v)
}

// Forall builds a quantified formula with an optional pattern.
func Forall(vars []T, body T, pats ...T) T {
	if body.Const {
		return body
	}
	var b strings.Builder
	b.WriteString("(forall (")
	for _, v := range vars {
		fmt.Fprintf(&b, "(%s %s)", v.S, v.Sort.String())
	}
	b.WriteString(") ")
	if len(pats) > 0 {
		b.WriteString("(! ")
		b.WriteString(body.S)
		b.WriteString(" :pattern (")
		for i, p := range pats {
			if i > 0 {
				b.WriteByte(' ')
			}
			b.WriteString(p.S)
		}
		b.WriteString("))")
	} else {
		b.WriteString(body.S)
	}
	b.WriteString(")")
	return T{S: b.String(), Sort: BoolSort}
}

func UF(name string, res Sort, args ...T) T { return app(res, name, args...) }

// symbolsIn extracts candidate symbol tokens of an SMT text.
func symbolsIn(s string, out map[string]bool) {
	start := -1
	for i := 0; i <= len(s); i++ {
		var c byte = ' '
		if i < len(s) {
			c = s[i]
		}
		if c == '(' || c == ')' || c == ' ' || c == '\n' || c == '\t' {
			if start >= 0 {
				out[s[start:i]] = true
				start = -1
			}
		} else if start < 0 {
			start = i
		}
	}
}

func sortedKeys(m map[string]bool) []string {
	var ks []string
	for k := range m {
		ks = append(ks, k)
	}
	sort.Strings(ks)
	return ks
}
