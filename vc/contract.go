package main

// Contract files: comment-only Go files (//go:build verif) holding Gobra-style
// `//@` clauses keyed by function. This file parses them.

import (
	"fmt"
	"os"
	"path/filepath"
	"strconv"
	"strings"
	"unicode"
)

// ---------------------------------------------------------------------------
// Expression AST

type Expr interface{}

type EIdent struct{ Name string }
type EInt struct {
	V   uint64
	Neg bool
}
type EBool struct{ V bool }
type ENil struct{}
type EStr struct{ V string }
type ESel struct {
	X    Expr
	Name string
}
type EIndex struct{ X, I Expr }
type ESlice struct{ X, Lo, Hi Expr }
type ECall struct {
	Fn   string // possibly qualified "errors.Is"
	Args []Expr
}
type EUn struct {
	Op string
	X  Expr
}
type EBin struct {
	Op   string
	L, R Expr
}
type EQuant struct {
	Forall bool
	Vars   []string
	Typ    string
	Body   Expr
	Pats   []Expr
}
type EOld struct{ X Expr }

// ---------------------------------------------------------------------------
// Lexer

type tok struct {
	k string // "id", "int", "str", "op", "eof"
	s string
}

func lex(src string) ([]tok, error) {
	var ts []tok
	i := 0
	for i < len(src) {
		c := src[i]
		switch {
		case c == ' ' || c == '\t' || c == '\n':
			i++
		case unicode.IsLetter(rune(c)) || c == '_':
			j := i
			for j < len(src) && (unicode.IsLetter(rune(src[j])) || unicode.IsDigit(rune(src[j])) || src[j] == '_' || src[j] == '$' || src[j] == '#') {
				j++
			}
			ts = append(ts, tok{"id", src[i:j]})
			i = j
		case c >= '0' && c <= '9':
			j := i
			for j < len(src) && (unicode.IsLetter(rune(src[j])) || unicode.IsDigit(rune(src[j])) || src[j] == '_') {
				j++
			}
			ts = append(ts, tok{"int", strings.ReplaceAll(src[i:j], "_", "")})
			i = j
		case c == '"':
			j := i + 1
			for j < len(src) && src[j] != '"' {
				j++
			}
			if j >= len(src) {
				return nil, fmt.Errorf("unterminated string")
			}
			ts = append(ts, tok{"str", src[i+1 : j]})
			i = j + 1
		default:
			ops := []string{"<==>", "==>", "::", "==", "!=", "<=", ">=", "&&", "||", "<<", ">>", "&^"}
			matched := false
			for _, op := range ops {
				if strings.HasPrefix(src[i:], op) {
					ts = append(ts, tok{"op", op})
					i += len(op)
					matched = true
					break
				}
			}
			if !matched {
				if strings.ContainsRune("+-*/%<>!()[]{},.:&|^", rune(c)) {
					ts = append(ts, tok{"op", string(c)})
					i++
				} else {
					return nil, fmt.Errorf("unexpected character %q", c)
				}
			}
		}
	}
	ts = append(ts, tok{"eof", ""})
	return ts, nil
}

type parser struct {
	ts []tok
	p  int
}

func (p *parser) peek() tok { return p.ts[p.p] }
func (p *parser) next() tok { t := p.ts[p.p]; p.p++; return t }
func (p *parser) isOp(s string) bool {
	t := p.peek()
	return t.k == "op" && t.s == s
}
func (p *parser) accept(s string) bool {
	if p.isOp(s) {
		p.p++
		return true
	}
	return false
}
func (p *parser) expect(s string) error {
	if !p.accept(s) {
		return fmt.Errorf("expected %q, got %q", s, p.peek().s)
	}
	return nil
}

func ParseExpr(src string) (Expr, error) {
	ts, err := lex(src)
	if err != nil {
		return nil, err
	}
	p := &parser{ts: ts}
	e, err := p.parseIff()
	if err != nil {
		return nil, fmt.Errorf("%v in %q", err, src)
	}
	if p.peek().k != "eof" {
		return nil, fmt.Errorf("trailing input %q in %q", p.peek().s, src)
	}
	return e, nil
}

func (p *parser) parseIff() (Expr, error) {
	l, err := p.parseImpl()
	if err != nil {
		return nil, err
	}
	for p.accept("<==>") {
		r, err := p.parseImpl()
		if err != nil {
			return nil, err
		}
		l = &EBin{"<==>", l, r}
	}
	return l, nil
}

func (p *parser) parseImpl() (Expr, error) {
	l, err := p.parseOr()
	if err != nil {
		return nil, err
	}
	if p.accept("==>") {
		r, err := p.parseImpl()
		if err != nil {
			return nil, err
		}
		return &EBin{"==>", l, r}, nil
	}
	return l, nil
}

func (p *parser) parseOr() (Expr, error) {
	l, err := p.parseAnd()
	if err != nil {
		return nil, err
	}
	for p.accept("||") {
		r, err := p.parseAnd()
		if err != nil {
			return nil, err
		}
		l = &EBin{"||", l, r}
	}
	return l, nil
}

func (p *parser) parseAnd() (Expr, error) {
	l, err := p.parseCmp()
	if err != nil {
		return nil, err
	}
	for p.accept("&&") {
		r, err := p.parseCmp()
		if err != nil {
			return nil, err
		}
		l = &EBin{"&&", l, r}
	}
	return l, nil
}

func (p *parser) parseCmp() (Expr, error) {
	l, err := p.parseAdd()
	if err != nil {
		return nil, err
	}
	for {
		t := p.peek()
		if t.k == "op" && (t.s == "==" || t.s == "!=" || t.s == "<" || t.s == "<=" || t.s == ">" || t.s == ">=") {
			p.next()
			r, err := p.parseAdd()
			if err != nil {
				return nil, err
			}
			// chained comparisons a <= b < c  => (a<=b) && (b<c)
			if lb, ok := l.(*EBin); ok && isCmpOp(lb.Op) && !lb.paren() {
				l = &EBin{"&&", l, &EBin{t.s, lb.R, r}}
			} else {
				l = &EBin{t.s, l, r}
			}
			continue
		}
		return l, nil
	}
}

func isCmpOp(s string) bool {
	switch s {
	case "==", "!=", "<", "<=", ">", ">=":
		return true
	}
	return false
}

func (b *EBin) paren() bool { return false }

func (p *parser) parseAdd() (Expr, error) {
	l, err := p.parseMul()
	if err != nil {
		return nil, err
	}
	for {
		t := p.peek()
		if t.k == "op" && (t.s == "+" || t.s == "-" || t.s == "|" || t.s == "^") {
			p.next()
			r, err := p.parseMul()
			if err != nil {
				return nil, err
			}
			l = &EBin{t.s, l, r}
			continue
		}
		return l, nil
	}
}

func (p *parser) parseMul() (Expr, error) {
	l, err := p.parseUnary()
	if err != nil {
		return nil, err
	}
	for {
		t := p.peek()
		if t.k == "op" && (t.s == "*" || t.s == "/" || t.s == "%" || t.s == "<<" || t.s == ">>" || t.s == "&" || t.s == "&^") {
			p.next()
			r, err := p.parseUnary()
			if err != nil {
				return nil, err
			}
			l = &EBin{t.s, l, r}
			continue
		}
		return l, nil
	}
}

func (p *parser) parseUnary() (Expr, error) {
	t := p.peek()
	if t.k == "op" && (t.s == "!" || t.s == "-" || t.s == "^") {
		p.next()
		x, err := p.parseUnary()
		if err != nil {
			return nil, err
		}
		return &EUn{t.s, x}, nil
	}
	return p.parsePostfix()
}

func (p *parser) parsePostfix() (Expr, error) {
	x, err := p.parsePrimary()
	if err != nil {
		return nil, err
	}
	for {
		switch {
		case p.accept("."):
			t := p.next()
			if t.k != "id" {
				return nil, fmt.Errorf("expected field name after '.'")
			}
			// qualified call e.g. errors.Is(...)
			if id, ok := x.(*EIdent); ok && p.isOp("(") {
				p.next()
				args, err := p.parseArgs()
				if err != nil {
					return nil, err
				}
				x = &ECall{Fn: id.Name + "." + t.s, Args: args}
				continue
			}
			x = &ESel{x, t.s}
		case p.accept("["):
			var lo, hi Expr
			if !p.isOp(":") {
				lo, err = p.parseIff()
				if err != nil {
					return nil, err
				}
			}
			if p.accept(":") {
				if !p.isOp("]") {
					hi, err = p.parseIff()
					if err != nil {
						return nil, err
					}
				}
				if err := p.expect("]"); err != nil {
					return nil, err
				}
				x = &ESlice{x, lo, hi}
			} else {
				if err := p.expect("]"); err != nil {
					return nil, err
				}
				x = &EIndex{x, lo}
			}
		default:
			return x, nil
		}
	}
}

func (p *parser) parseArgs() ([]Expr, error) {
	var args []Expr
	if p.accept(")") {
		return args, nil
	}
	for {
		a, err := p.parseIff()
		if err != nil {
			return nil, err
		}
		args = append(args, a)
		if p.accept(",") {
			continue
		}
		if err := p.expect(")"); err != nil {
			return nil, err
		}
		return args, nil
	}
}

func (p *parser) parsePrimary() (Expr, error) {
	t := p.next()
	switch t.k {
	case "int":
		v, err := strconv.ParseUint(t.s, 0, 64)
		if err != nil {
			return nil, fmt.Errorf("bad integer %q", t.s)
		}
		return &EInt{V: v}, nil
	case "str":
		return &EStr{t.s}, nil
	case "id":
		switch t.s {
		case "true":
			return &EBool{true}, nil
		case "false":
			return &EBool{false}, nil
		case "nil":
			return &ENil{}, nil
		case "forall", "exists":
			var vars []string
			for {
				v := p.next()
				if v.k != "id" {
					return nil, fmt.Errorf("expected quantified variable")
				}
				vars = append(vars, v.s)
				if !p.accept(",") {
					break
				}
			}
			ty := p.next()
			if ty.k != "id" {
				return nil, fmt.Errorf("expected type of quantified variable")
			}
			if err := p.expect("::"); err != nil {
				return nil, err
			}
			var pats []Expr
			for p.accept("{") {
				pe, err := p.parseIff()
				if err != nil {
					return nil, err
				}
				pats = append(pats, pe)
				if err := p.expect("}"); err != nil {
					return nil, err
				}
			}
			body, err := p.parseIff()
			if err != nil {
				return nil, err
			}
			return &EQuant{Forall: t.s == "forall", Vars: vars, Typ: ty.s, Body: body, Pats: pats}, nil
		case "old":
			if err := p.expect("("); err != nil {
				return nil, err
			}
			x, err := p.parseIff()
			if err != nil {
				return nil, err
			}
			if err := p.expect(")"); err != nil {
				return nil, err
			}
			return &EOld{x}, nil
		}
		if p.isOp("(") {
			p.next()
			args, err := p.parseArgs()
			if err != nil {
				return nil, err
			}
			return &ECall{Fn: t.s, Args: args}, nil
		}
		return &EIdent{t.s}, nil
	case "op":
		if t.s == "(" {
			x, err := p.parseIff()
			if err != nil {
				return nil, err
			}
			if err := p.expect(")"); err != nil {
				return nil, err
			}
			// wrap to stop comparison chaining through parentheses
			return &EUn{"()", x}, nil
		}
	}
	return nil, fmt.Errorf("unexpected token %q", t.s)
}

// ---------------------------------------------------------------------------
// Contract structures

type Clause struct {
	Kind   string   // requires ensures invariant decreases assigns
	Labels []string // e.g. C09.pad
	Src    string
	E      Expr
	Try    bool // attempted only in the thorough tier, never claimed
	Loop   int // loop ordinal for invariant/decreases
	Line   int
	File   string
}

type AssignTarget struct {
	Src string
	E   Expr // location expression; ESlice for ranges, ECall mem(x)
}

type Contract struct {
	Key       string // function key, e.g. "segment.padLen", "segment.(*Writer).Append"
	Pkg       string // package name
	Props     []string
	Requires  []*Clause
	Ensures   []*Clause
	Invs      map[int][]*Clause
	Decr      map[int]*Clause
	Assigns   []AssignTarget
	AssignAll bool // "assigns *" : havoc everything reachable
	HasAssign bool
	Inline    bool
	Trusted   string // reason when the body is not verified
	Pure      bool
	NoVerify  bool
	Unroll    map[int]int
	MayPanic  bool
	Ghosts    []string
	File      string
	Line      int
	// callback invariants: for function-typed params
	Extra map[string][]string
	// Site obligations: "site <callee-pattern> requires[label] expr"
	Sites []*SiteClause
	// AllocBound: "alloc_bound[label] expr" every make() in body has len <= expr
	AllocBound []*Clause
	// interface contract?
	IsIface bool
	// ParamNames: explicit parameter names (function-type contracts)
	ParamNames []string
	// InlineCalls: callees executed through their body in this unit
	InlineCalls []string
	// ResultContracts: function-valued results that satisfy a named function
	// contract with the given ghost arguments (`resultcontract r key(args)`)
	ResultContracts []ResultContract
	// ImplBind: for a closure implementing a function contract whose parameters
	// are ghost-bound, the captured variable each parameter stands for
	ImplBind map[string]Expr
	// Implements: key of a function-type contract this closure implements
	Implements string
	// CbInv: callback invariants over the closure's captured variables
	CbInv []*Clause
	// GhostSet: ghost updates performed as part of a call ("g = expr")
	GhostSet []GhostAssign
	// GhostInit: ghost prologue of the unit
	GhostInit []GhostAssign
	// GhostArgs: instantiation of callee ghost parameters at call sites
	GhostArgs []GhostArg
	// Refines: interface-method contracts this concrete method is proved to
	// satisfy under the type's coupling (`refines types.SegmentWriter.Append`)
	Refines []string
}

type GhostArg struct {
	Callee  string
	Ordinal string
	Name    string
	E       Expr
}

type GhostAssign struct {
	Name string
	Src  string
	E    Expr
}

type SiteClause struct {
	Callee string
	Clause *Clause
}

type Predicate struct {
	Name   string
	Params []string
	Body   Expr
	Src    string
}

type AtomicDecl struct {
	Type  string // "Writer.offsets"
	GoTyp string // "[]uint32"
}

type ContractSet struct {
	Funcs   map[string]*Contract  // key: pkgname.FuncKey
	Preds   map[string]*Predicate // key: pkgname.Name and bare Name
	Atomics map[string]string     // "pkgname.Writer.offsets" -> go type text
	Lemmas  []*Lemma
	Files   []string
	NLines  int
	// Couplings: "pkg.Type" -> abstract (ghost) field of the interface view ->
	// expression over `self` (a value of the concrete type) that defines it
	Couplings map[string]map[string]*Coupling
	// ChanInvs: "pkg.Type.field" -> invariant over `msg` that every value sent
	// on the channel held in that field satisfies (proved at the sends under
	// contract, assumed of every received value)
	ChanInvs map[string]*Clause
}

// Coupling defines one ghost field of an interface-level view for a concrete
// type: `coupling Writer.last = self.commitIdx`.
type Coupling struct {
	Type, Field, Src string
	E                Expr
	File             string
	Line             int
}

// ResultContract says that a function-valued result, when non-nil, behaves as
// the function contract Key with its (ghost) parameters bound to Args.
type ResultContract struct {
	Result string
	Key    string
	Args   []Expr
	Src    string
	Line   int
	File   string
}

type Lemma struct {
	Name   string
	Labels []string
	Props  []string
	Vars   []string // "x uint64"
	Assume []*Clause
	Prove  []*Clause
	Pkg    string
	File   string
	Line   int
}

func splitLabels(kw string) (string, []string) {
	if i := strings.Index(kw, "["); i >= 0 && strings.HasSuffix(kw, "]") {
		ls := strings.Split(kw[i+1:len(kw)-1], ",")
		for j := range ls {
			ls[j] = strings.TrimSpace(ls[j])
		}
		return kw[:i], ls
	}
	return kw, nil
}

// LoadContracts reads all *_verif.go contract files below root plus spec dir.
func LoadContracts(dirs []string) (*ContractSet, error) {
	cs := &ContractSet{Funcs: map[string]*Contract{}, Preds: map[string]*Predicate{}, Atomics: map[string]string{}, Couplings: map[string]map[string]*Coupling{}, ChanInvs: map[string]*Clause{}}
	for _, d := range dirs {
		matches, _ := filepath.Glob(filepath.Join(d, "*_verif.go"))
		more, _ := filepath.Glob(filepath.Join(d, "*.spec"))
		matches = append(matches, more...)
		for _, f := range matches {
			if err := cs.loadFile(f); err != nil {
				return nil, err
			}
		}
	}
	return cs, nil
}

func (cs *ContractSet) loadFile(path string) error {
	data, err := os.ReadFile(path)
	if err != nil {
		return err
	}
	cs.Files = append(cs.Files, path)
	lines := strings.Split(string(data), "\n")
	pkg := ""
	var cur *Contract
	var curLemma *Lemma
	var lastClause *Clause
	var pendingPred *Predicate
	inAssigns := false
	fail := func(i int, format string, a ...interface{}) error {
		return fmt.Errorf("%s:%d: %s", path, i+1, fmt.Sprintf(format, a...))
	}
	finishPred := func(i int) error {
		if pendingPred != nil {
			e, err := ParseExpr(pendingPred.Src)
			if err != nil {
				return fail(i, "predicate %s: %v", pendingPred.Name, err)
			}
			pendingPred.Body = e
			cs.Preds[pkg+"."+pendingPred.Name] = pendingPred
			pendingPred = nil
		}
		return nil
	}
	finishClause := func(i int) error {
		if lastClause != nil && lastClause.E == nil {
			e, err := ParseExpr(lastClause.Src)
			if err != nil {
				return fail(lastClause.Line-1, "%v", err)
			}
			lastClause.E = e
		}
		lastClause = nil
		return nil
	}
	for i, raw := range lines {
		line := strings.TrimSpace(raw)
		if strings.HasPrefix(line, "package ") && pkg == "" {
			pkg = strings.TrimSpace(strings.TrimPrefix(line, "package "))
			continue
		}
		if !strings.HasPrefix(line, "//@") {
			continue
		}
		cs.NLines++
		body := strings.TrimSpace(strings.TrimPrefix(line, "//@"))
		if body == "" {
			continue
		}
		if strings.HasPrefix(body, "--") { // comment
			continue
		}
		fields := strings.Fields(body)
		kwFull := fields[0]
		kw, labels := splitLabels(kwFull)
		rest := strings.TrimSpace(strings.TrimPrefix(body, kwFull))
		switch kw {
		case "package":
			pkg = rest
			continue
		case "func", "interface":
			if err := finishClause(i); err != nil {
				return err
			}
			if err := finishPred(i); err != nil {
				return err
			}
			var pnames []string
			if lp := strings.Index(rest, "("); lp > 0 && strings.HasSuffix(rest, ")") && !strings.HasPrefix(rest, "(") {
				for _, pn := range strings.Split(rest[lp+1:len(rest)-1], ",") {
					pnames = append(pnames, strings.TrimSpace(pn))
				}
				rest = strings.TrimSpace(rest[:lp])
			}
			key := pkg + "." + rest
			if _, dup := cs.Funcs[key]; dup {
				return fail(i, "duplicate contract for %s", key)
			}
			cur = &Contract{Key: key, Pkg: pkg, Invs: map[int][]*Clause{}, Decr: map[int]*Clause{}, Unroll: map[int]int{}, File: path, Line: i + 1, Extra: map[string][]string{}, IsIface: kw == "interface", ParamNames: pnames}
			cs.Funcs[key] = cur
			curLemma = nil
			continue
		case "lemma":
			if err := finishClause(i); err != nil {
				return err
			}
			if err := finishPred(i); err != nil {
				return err
			}
			curLemma = &Lemma{Name: rest, Labels: labels, Pkg: pkg, File: path, Line: i + 1}
			cs.Lemmas = append(cs.Lemmas, curLemma)
			cur = nil
			continue
		case "predicate":
			if err := finishClause(i); err != nil {
				return err
			}
			if err := finishPred(i); err != nil {
				return err
			}
			// predicate Name(a, b) = expr
			eq := strings.Index(rest, "=")
			lp := strings.Index(rest, "(")
			rp := strings.Index(rest, ")")
			if eq < 0 || lp < 0 || rp < lp || rp > eq {
				return fail(i, "malformed predicate")
			}
			name := strings.TrimSpace(rest[:lp])
			var params []string
			for _, p := range strings.Split(rest[lp+1:rp], ",") {
				p = strings.TrimSpace(p)
				if p != "" {
					params = append(params, strings.Fields(p)[0])
				}
			}
			pendingPred = &Predicate{Name: name, Params: params, Src: strings.TrimSpace(rest[eq+1:])}
			cur = nil
			curLemma = nil
			continue
		case "chaninv":
			// chaninv LogStore.verifyCh msg.Err == nil
			if err := finishClause(i); err != nil {
				return err
			}
			if err := finishPred(i); err != nil {
				return err
			}
			if len(fields) < 3 {
				return fail(i, "malformed chaninv (want: chaninv Type.field expr)")
			}
			c := &Clause{Kind: "chaninv", Labels: labels, Src: strings.TrimSpace(strings.TrimPrefix(rest, fields[1])), Line: i + 1, File: path}
			ce, err := ParseExpr(c.Src)
			if err != nil {
				return fail(i, "%v", err)
			}
			c.E = ce
			cs.ChanInvs[pkg+"."+fields[1]] = c
			cur = nil
			curLemma = nil
			continue
		case "coupling":
			// coupling Writer.last = self.commitIdx
			if err := finishClause(i); err != nil {
				return err
			}
			if err := finishPred(i); err != nil {
				return err
			}
			eq := strings.Index(rest, "=")
			if eq < 0 {
				return fail(i, "malformed coupling (want: coupling Type.field = expr)")
			}
			lhs := strings.TrimSpace(rest[:eq])
			dot := strings.LastIndex(lhs, ".")
			if dot < 0 {
				return fail(i, "malformed coupling (want: coupling Type.field = expr)")
			}
			ce, err := ParseExpr(strings.TrimSpace(rest[eq+1:]))
			if err != nil {
				return fail(i, "%v", err)
			}
			tk := pkg + "." + lhs[:dot]
			if cs.Couplings[tk] == nil {
				cs.Couplings[tk] = map[string]*Coupling{}
			}
			cs.Couplings[tk][lhs[dot+1:]] = &Coupling{Type: tk, Field: lhs[dot+1:], Src: strings.TrimSpace(rest[eq+1:]), E: ce, File: path, Line: i + 1}
			cur = nil
			curLemma = nil
			continue
		case "atomic":
			// atomic Writer.offsets []uint32
			if len(fields) < 3 {
				return fail(i, "malformed atomic")
			}
			cs.Atomics[pkg+"."+fields[1]] = strings.Join(fields[2:], " ")
			continue
		}
		if pendingPred != nil {
			pendingPred.Src += " " + body
			continue
		}
		if kw == "doc" {
			// documentation pin (decided by docObligations): ends the clause before it
			if err := finishClause(i); err != nil {
				return err
			}
			lastClause = nil
			continue
		}
		if curLemma != nil {
			switch kw {
			case "props":
				curLemma.Props = strings.Fields(rest)
			case "vars":
				for _, v := range strings.Split(rest, ",") {
					curLemma.Vars = append(curLemma.Vars, strings.TrimSpace(v))
				}
			case "assume":
				if err := finishClause(i); err != nil {
					return err
				}
				c := &Clause{Kind: "assume", Src: rest, Line: i + 1, File: path}
				curLemma.Assume = append(curLemma.Assume, c)
				lastClause = c
			case "prove":
				if err := finishClause(i); err != nil {
					return err
				}
				c := &Clause{Kind: "prove", Labels: labels, Src: rest, Line: i + 1, File: path}
				curLemma.Prove = append(curLemma.Prove, c)
				lastClause = c
			default:
				if lastClause == nil {
					return fail(i, "unexpected line in lemma: %s", body)
				}
				lastClause.Src += " " + body
			}
			continue
		}
		if cur == nil {
			return fail(i, "clause outside of a func block: %s", body)
		}
		switch kw {
		case "props":
			cur.Props = strings.Fields(rest)
		case "requires", "ensures", "tryensures":
			if err := finishClause(i); err != nil {
				return err
			}
			c := &Clause{Kind: kw, Labels: labels, Src: rest, Line: i + 1, File: path}
			if kw == "tryensures" {
				c.Try = true
			}
			if kw == "requires" {
				cur.Requires = append(cur.Requires, c)
			} else {
				cur.Ensures = append(cur.Ensures, c)
			}
			lastClause = c
		case "alloc_bound":
			if err := finishClause(i); err != nil {
				return err
			}
			c := &Clause{Kind: kw, Labels: labels, Src: rest, Line: i + 1, File: path}
			cur.AllocBound = append(cur.AllocBound, c)
			lastClause = c
		case "site":
			// site <callee> requires[label] expr
			if err := finishClause(i); err != nil {
				return err
			}
			if len(fields) < 4 {
				return fail(i, "malformed site clause")
			}
			k2, l2 := splitLabels(fields[2])
			if k2 != "requires" {
				return fail(i, "site clause needs 'requires'")
			}
			idx := strings.Index(body, fields[2])
			c := &Clause{Kind: "site", Labels: l2, Src: strings.TrimSpace(body[idx+len(fields[2]):]), Line: i + 1, File: path}
			cur.Sites = append(cur.Sites, &SiteClause{Callee: fields[1], Clause: c})
			lastClause = c
		case "loop":
			// loop N invariant[label] expr | loop N decreases expr | loop N unroll K
			if err := finishClause(i); err != nil {
				return err
			}
			if len(fields) < 3 {
				return fail(i, "malformed loop clause")
			}
			n, err := strconv.Atoi(fields[1])
			if err != nil {
				return fail(i, "bad loop ordinal")
			}
			k2, l2 := splitLabels(fields[2])
			idx := strings.Index(body, fields[2])
			src := strings.TrimSpace(body[idx+len(fields[2]):])
			switch k2 {
			case "invariant":
				c := &Clause{Kind: "invariant", Labels: l2, Src: src, Loop: n, Line: i + 1, File: path}
				cur.Invs[n] = append(cur.Invs[n], c)
				lastClause = c
			case "decreases":
				c := &Clause{Kind: "decreases", Labels: l2, Src: src, Loop: n, Line: i + 1, File: path}
				cur.Decr[n] = c
				lastClause = c
			case "unroll":
				k, err := strconv.Atoi(src)
				if err != nil {
					return fail(i, "bad unroll bound")
				}
				cur.Unroll[n] = k
			default:
				return fail(i, "unknown loop clause %s", k2)
			}
		case "assigns":
			if err := finishClause(i); err != nil {
				return err
			}
			cur.HasAssign = true
			if rest == "*" {
				cur.AssignAll = true
				break
			}
			if rest == "" || rest == "nothing" {
				break
			}
			inAssigns = true
			for _, part := range splitTop(rest) {
				if part == "" {
					continue
				}
				e, err := ParseExpr(part)
				if err != nil {
					return fail(i, "%v", err)
				}
				cur.Assigns = append(cur.Assigns, AssignTarget{Src: part, E: e})
			}
		case "doc":
			// documentation pin, decided by the static obligations (docObligations)
			if err := finishClause(i); err != nil {
				return err
			}
		case "implements":
			cur.Implements = rest
		case "refines":
			cur.Refines = append(cur.Refines, strings.Fields(rest)...)
		case "inlinecall":
			cur.InlineCalls = append(cur.InlineCalls, rest)
		case "resultcontract":
			// resultcontract <result> <key>(<args>)
			if len(fields) < 3 {
				return fail(i, "malformed resultcontract")
			}
			spec := strings.TrimSpace(strings.TrimPrefix(strings.TrimSpace(rest), fields[1]))
			op := strings.Index(spec, "(")
			if op < 0 || !strings.HasSuffix(spec, ")") {
				return fail(i, "malformed resultcontract (want: resultcontract <result> <key>(<args>))")
			}
			rc := ResultContract{Result: fields[1], Key: strings.TrimSpace(spec[:op]), Src: rest, Line: i + 1, File: path}
			for _, part := range splitTop(spec[op+1 : len(spec)-1]) {
				if part == "" {
					continue
				}
				ae, err := ParseExpr(part)
				if err != nil {
					return fail(i, "%v", err)
				}
				rc.Args = append(rc.Args, ae)
			}
			cur.ResultContracts = append(cur.ResultContracts, rc)
		case "implbind":
			eq := strings.Index(rest, "=")
			if eq < 0 {
				return fail(i, "malformed implbind (want: implbind <param> = <expr>)")
			}
			be, err := ParseExpr(strings.TrimSpace(rest[eq+1:]))
			if err != nil {
				return fail(i, "%v", err)
			}
			if cur.ImplBind == nil {
				cur.ImplBind = map[string]Expr{}
			}
			cur.ImplBind[strings.TrimSpace(rest[:eq])] = be
		case "cbinv":
			if err := finishClause(i); err != nil {
				return err
			}
			c := &Clause{Kind: "cbinv", Labels: labels, Src: rest, Line: i + 1, File: path}
			cur.CbInv = append(cur.CbInv, c)
			lastClause = c
		case "ghostset", "ghostinit":
			if err := finishClause(i); err != nil {
				return err
			}
			eq := strings.Index(rest, "=")
			if eq < 0 {
				return fail(i, "malformed %s", kw)
			}
			ge, err := ParseExpr(strings.TrimSpace(rest[eq+1:]))
			if err != nil {
				return fail(i, "%v", err)
			}
			ga := GhostAssign{Name: strings.TrimSpace(rest[:eq]), Src: rest, E: ge}
			if kw == "ghostset" {
				cur.GhostSet = append(cur.GhostSet, ga)
			} else {
				cur.GhostInit = append(cur.GhostInit, ga)
			}
		case "ghostarg":
			// ghostarg <callee> <ordinal> <name> = <expr>
			if len(fields) < 6 || fields[4] != "=" {
				return fail(i, "malformed ghostarg (want: ghostarg <callee> <n> <name> = <expr>)")
			}
			idx := strings.Index(body, " = ")
			ge, err := ParseExpr(strings.TrimSpace(body[idx+3:]))
			if err != nil {
				return fail(i, "%v", err)
			}
			cur.GhostArgs = append(cur.GhostArgs, GhostArg{Callee: fields[1], Ordinal: fields[2], Name: fields[3], E: ge})
		case "ghostparam":
			// ghostparam <name> <go type>: universally quantified logical parameter
			if len(fields) < 3 {
				return fail(i, "malformed ghostparam")
			}
			cur.Ghosts = append(cur.Ghosts, fields[1]+" "+strings.Join(fields[2:], " "))
		case "inline":
			cur.Inline = true
		case "pure":
			cur.Pure = true
		case "trusted":
			cur.Trusted = rest
			if cur.Trusted == "" {
				cur.Trusted = "unspecified"
			}
		case "noverify":
			cur.NoVerify = true
		case "may_panic":
			cur.MayPanic = true
		case "callback":
			// callback <param> <kind> <text>
			if len(fields) < 3 {
				return fail(i, "malformed callback clause")
			}
			cur.Extra["callback."+fields[1]] = append(cur.Extra["callback."+fields[1]], strings.Join(fields[2:], " "))
		default:
			if inAssigns && lastClause == nil {
				for _, part := range splitTop(body) {
					if part == "" {
						continue
					}
					e, err := ParseExpr(part)
					if err != nil {
						return fail(i, "%v", err)
					}
					cur.Assigns = append(cur.Assigns, AssignTarget{Src: part, E: e})
				}
				continue
			}
			if lastClause == nil {
				return fail(i, "unknown clause %q", kw)
			}
			lastClause.Src += " " + body
		}
		if kw != "assigns" {
			if _, isKw := map[string]bool{"props": true, "requires": true, "ensures": true, "tryensures": true, "alloc_bound": true, "site": true, "loop": true, "inline": true, "pure": true, "trusted": true, "noverify": true, "may_panic": true, "callback": true, "ghostparam": true, "doc": true, "implements": true, "refines": true, "inlinecall": true, "resultcontract": true, "implbind": true, "cbinv": true, "ghostset": true, "ghostinit": true, "ghostarg": true}[kw]; isKw {
				inAssigns = false
			}
		}
	}
	if err := finishClause(len(lines)); err != nil {
		return err
	}
	return finishPred(len(lines))
}

// splitTop splits on commas not nested in parentheses/brackets.
func splitTop(s string) []string {
	var out []string
	depth := 0
	start := 0
	for i, c := range s {
		switch c {
		case '(', '[':
			depth++
		case ')', ']':
			depth--
		case ',':
			if depth == 0 {
				out = append(out, strings.TrimSpace(s[start:i]))
				start = i + 1
			}
		}
	}
	out = append(out, strings.TrimSpace(s[start:]))
	return out
}
