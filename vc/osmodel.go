package main

// Assumed models of os / path/filepath / fileutil / bbolt / encoding/json as
// ghost *events* appended to the path's trace (C07/C08 event-order
// contracts). Nothing about the kernel, the disk or bbolt is verified.

import (
	"fmt"
	"go/types"
	"os"

	"golang.org/x/tools/go/ssa"
)

func (e *Exec) strTagOf(v Value) string {
	if s, ok := v.(VStr); ok {
		if s.Lit != nil {
			return *s.Lit
		}
		if t, ok := e.strTags[s.T.S]; ok {
			return t
		}
	}
	return "?"
}

func (e *Exec) newTaggedPtr(st *State, in ssa.Instruction, idx int, tag string) VPtr {
	rt := in.(ssa.Value).Type()
	if tt, ok := rt.(*types.Tuple); ok {
		rt = tt.At(idx).Type()
	}
	pt := rt.(*types.Pointer)
	e.nobj++
	obj := &Object{ID: e.nobj, Name: fmt.Sprintf("%s#%d", tag, e.nobj), Typ: pt.Elem()}
	st.Objs[obj] = VOpaque{T: e.fresh("handle", BV64), Typ: pt.Elem()}
	e.objTags[obj] = tag
	return VPtr{Nil: False, Loc: &Loc{Obj: obj}, Elem: pt.Elem()}
}

func (e *Exec) tagOfPtr(v Value) string {
	if p, ok := v.(VPtr); ok && p.Loc != nil && p.Loc.Obj != nil && len(p.Loc.Path) == 0 {
		if t, ok := e.objTags[p.Loc.Obj]; ok {
			return t
		}
	}
	return "file"
}

// fallible returns (ptr-or-nil, err) with err arbitrary and ptr nil iff err != nil.
func (e *Exec) fallible(st *State, ok Value, zero Value) (Value, VErr) {
	err := VErr{e.fresh("oserr", BV32)}
	// callers branch on err; the non-nil handle is only used when err == nil
	return ok, err
}

func (e *Exec) litOfSlice(v Value) string {
	if s, ok := v.(VSlice); ok && s.Reg != nil {
		if l, ok := e.litOfRegion[s.Reg]; ok {
			return l
		}
	}
	return "?"
}

func init() {
	ev := func(st *State, s string) { st.Trace = append(st.Trace, s) }
	intrinsics["path/filepath.Join"] = func(e *Exec, st *State, fr *Frame, a []Value, in ssa.Instruction) Value {
		t := e.fresh("path", BV32)
		if va, ok := a[0].(VSlice); ok && va.Reg != nil && va.Len.Const && va.Len.V >= 1 {
			// remember the last element when it is a literal (file name)
			var last Value = e.readElem(st, va.Reg, BVBin("bvadd", va.Base, i64(int64(va.Len.V-1))), nil, types.Typ[types.String])
			if va.Base.Const {
				if se, ok := e.strElems[fmt.Sprintf("%s[%d]", va.Reg.Name, va.Base.V+va.Len.V-1)]; ok {
					last = se
				}
			}
			if ls, ok := last.(VStr); ok {
				if ls.Lit != nil {
					e.strTags[t.S] = *ls.Lit
				} else if tg, ok := e.strTags[ls.T.S]; ok {
					e.strTags[t.S] = tg
				}
			}
		}
		return VStr{T: t}
	}
	intrinsics["os.OpenFile"] = func(e *Exec, st *State, fr *Frame, a []Value, in ssa.Instruction) Value {
		kind := "openfile(?)"
		if f, ok := a[1].(VInt); ok && f.T.Const {
			fl := int(f.T.V)
			switch {
			case fl&os.O_CREATE != 0 && fl&os.O_EXCL != 0 && fl&os.O_RDWR != 0:
				kind = "openfile(excl-create,rdwr)"
			case fl&os.O_CREATE != 0:
				kind = "openfile(create)"
			case fl&os.O_RDWR != 0:
				kind = "openfile(rdwr)"
			default:
				kind = "openfile(rdonly)"
			}
		}
		ev(st, kind)
		err := VErr{e.fresh("oserr", BV32)}
		p := e.newTaggedPtr(st, in, 0, "file")
		p.Nil = Ne(err.T, BVConst(32, 0))
		return VTuple{E: []Value{p, err}}
	}
	intrinsics["os.Open"] = func(e *Exec, st *State, fr *Frame, a []Value, in ssa.Instruction) Value {
		ev(st, "open(dir)")
		err := VErr{e.fresh("oserr", BV32)}
		p := e.newTaggedPtr(st, in, 0, "dir")
		p.Nil = Ne(err.T, BVConst(32, 0))
		return VTuple{E: []Value{p, err}}
	}
	intrinsics["(*os.File).Sync"] = func(e *Exec, st *State, fr *Frame, a []Value, in ssa.Instruction) Value {
		ev(st, "fsync("+e.tagOfPtr(a[0])+")")
		return VErr{e.fresh("oserr", BV32)}
	}
	intrinsics["(*os.File).Close"] = func(e *Exec, st *State, fr *Frame, a []Value, in ssa.Instruction) Value {
		ev(st, "close("+e.tagOfPtr(a[0])+")")
		return VErr{e.fresh("oserr", BV32)}
	}
	intrinsics["os.Remove"] = func(e *Exec, st *State, fr *Frame, a []Value, in ssa.Instruction) Value {
		ev(st, "unlink")
		return VErr{e.fresh("oserr", BV32)}
	}
	intrinsics["os.RemoveAll"] = func(e *Exec, st *State, fr *Frame, a []Value, in ssa.Instruction) Value {
		ev(st, "removeall("+e.strTagOf(a[0])+")")
		return VErr{e.fresh("oserr", BV32)}
	}
	intrinsics["os.Rename"] = func(e *Exec, st *State, fr *Frame, a []Value, in ssa.Instruction) Value {
		ev(st, "rename("+e.strTagOf(a[0])+","+e.strTagOf(a[1])+")")
		return VErr{e.fresh("oserr", BV32)}
	}
	intrinsics["os.Stat"] = func(e *Exec, st *State, fr *Frame, a []Value, in ssa.Instruction) Value {
		ev(st, "stat("+e.strTagOf(a[0])+")")
		tt := in.(ssa.Value).Type().(*types.Tuple)
		return VTuple{E: []Value{e.materialize(e.freshName("fileinfo"), tt.At(0).Type()), VErr{e.fresh("oserr", BV32)}}}
	}
	intrinsics["go.etcd.io/etcd/client/pkg/v3/fileutil.Preallocate"] = func(e *Exec, st *State, fr *Frame, a []Value, in ssa.Instruction) Value {
		kind := "preallocate(?)"
		if b, ok := a[2].(VBool); ok && b.T.Const {
			if b.T.V == 1 {
				kind = "preallocate(extend)"
			} else {
				kind = "preallocate(noextend)"
			}
		}
		ev(st, kind)
		return VErr{e.fresh("oserr", BV32)}
	}
	// bbolt
	intrinsics["go.etcd.io/bbolt.Open"] = func(e *Exec, st *State, fr *Frame, a []Value, in ssa.Instruction) Value {
		ev(st, "boltopen("+e.strTagOf(a[0])+")")
		err := VErr{e.fresh("bolterr", BV32)}
		p := e.newTaggedPtr(st, in, 0, "boltdb")
		p.Nil = Ne(err.T, BVConst(32, 0))
		return VTuple{E: []Value{p, err}}
	}
	intrinsics["(*go.etcd.io/bbolt.DB).Begin"] = func(e *Exec, st *State, fr *Frame, a []Value, in ssa.Instruction) Value {
		kind := "begin(?)"
		if b, ok := a[1].(VBool); ok && b.T.Const {
			if b.T.V == 1 {
				kind = "begin(rw)"
			} else {
				kind = "begin(ro)"
			}
		}
		ev(st, kind)
		err := VErr{e.fresh("bolterr", BV32)}
		p := e.newTaggedPtr(st, in, 0, "bolttx")
		p.Nil = Ne(err.T, BVConst(32, 0))
		return VTuple{E: []Value{p, err}}
	}
	intrinsics["(*go.etcd.io/bbolt.DB).Close"] = func(e *Exec, st *State, fr *Frame, a []Value, in ssa.Instruction) Value {
		ev(st, "boltclose")
		return VErr{e.fresh("bolterr", BV32)}
	}
	intrinsics["(*go.etcd.io/bbolt.Tx).CreateBucket"] = func(e *Exec, st *State, fr *Frame, a []Value, in ssa.Instruction) Value {
		ev(st, "createbucket("+e.litOfSlice(a[1])+")")
		err := VErr{e.fresh("bolterr", BV32)}
		p := e.newTaggedPtr(st, in, 0, "bucket:"+e.litOfSlice(a[1]))
		p.Nil = Ne(err.T, BVConst(32, 0))
		return VTuple{E: []Value{p, err}}
	}
	intrinsics["(*go.etcd.io/bbolt.Tx).Bucket"] = func(e *Exec, st *State, fr *Frame, a []Value, in ssa.Instruction) Value {
		name := e.litOfSlice(a[1])
		ev(st, "bucket("+name+")")
		p := e.newTaggedPtr(st, in, 0, "bucket:"+name)
		// a bucket that does not exist yields nil; the two buckets created by
		// safeInitBoltDB are assumed to exist (the DB file is the WAL's own)
		if name == "wal-meta" || name == "stable" {
			p.Nil = False
		} else {
			p.Nil = e.fresh("nobucket", BoolSort)
		}
		return p
	}
	intrinsics["(*go.etcd.io/bbolt.Tx).Commit"] = func(e *Exec, st *State, fr *Frame, a []Value, in ssa.Instruction) Value {
		ev(st, "boltcommit")
		return VErr{e.fresh("bolterr", BV32)}
	}
	intrinsics["(*go.etcd.io/bbolt.Tx).Rollback"] = func(e *Exec, st *State, fr *Frame, a []Value, in ssa.Instruction) Value {
		// rollback after commit is a no-op error; receiver may be nil in safeInitBoltDB's defer
		ev(st, "boltrollback")
		return VErr{e.fresh("bolterr", BV32)}
	}
	bucketOp := func(op string) intrinsic {
		return func(e *Exec, st *State, fr *Frame, a []Value, in ssa.Instruction) Value {
			p := a[0].(VPtr)
			e.safe(st, in, "nil", Not(p.Nil))
			b := e.tagOfPtr(a[0])
			ev(st, op+"("+b+","+e.litOfSlice(a[1])+")")
			if op == "get" {
				return e.materialize(e.freshName("boltval"), types.NewSlice(types.Typ[types.Uint8]))
			}
			return VErr{e.fresh("bolterr", BV32)}
		}
	}
	intrinsics["(*go.etcd.io/bbolt.Bucket).Get"] = bucketOp("get")
	intrinsics["(*go.etcd.io/bbolt.Bucket).Put"] = bucketOp("put")
	intrinsics["(*go.etcd.io/bbolt.Bucket).Delete"] = bucketOp("delete")
	intrinsics["encoding/json.Marshal"] = func(e *Exec, st *State, fr *Frame, a []Value, in ssa.Instruction) Value {
		return VTuple{E: []Value{e.materialize(e.freshName("json"), types.NewSlice(types.Typ[types.Uint8])), VErr{e.fresh("jsonerr", BV32)}}}
	}
	intrinsics["encoding/json.Unmarshal"] = func(e *Exec, st *State, fr *Frame, a []Value, in ssa.Instruction) Value {
		// decodes into the pointee: arbitrary contents
		if vi, ok := a[1].(VIface); ok {
			if p, ok := vi.Val.(VPtr); ok && p.Loc != nil {
				e.storeLoc(st, p.Loc, e.materialize(e.freshName("unmarshalled"), p.Elem))
			}
		}
		return VErr{e.fresh("jsonerr", BV32)}
	}
	// isdyn(x, "pkg.Type"): dynamic type of an interface value is *pkg.Type
	specFuncs["isdyn"] = func(env *Env, n *ECall) Value {
		if len(n.Args) != 2 {
			env.fail("isdyn expects 2 arguments")
		}
		s, ok := n.Args[1].(*EStr)
		if !ok {
			env.fail("isdyn expects a string literal type name")
		}
		v := env.eval(n.Args[0])
		vi, ok := v.(VIface)
		if !ok || vi.Dyn == nil {
			return VBool{False}
		}
		if nt := namedOf(vi.Dyn); nt != nil && nt.Obj().Pkg() != nil && nt.Obj().Pkg().Name()+"."+nt.Obj().Name() == s.V {
			return VBool{True}
		}
		return VBool{False}
	}
}
