package main

// Additional spec functions of the contract language.

import "fmt"

func init() {
	// unchanged(s, lo, hi): s[k] == old(s[k]) for lo <= k < hi (same region, indices relative to s in the current state)
	specFuncs["unchanged"] = func(env *Env, n *ECall) Value {
		if len(n.Args) != 3 {
			env.fail("unchanged expects 3 arguments")
		}
		s := env.sliceArg(n.Args[0])
		if s.Reg == nil {
			return VBool{True}
		}
		es, ok := elemSort(s.Elem)
		if !ok {
			env.fail("unchanged over non-scalar elements")
		}
		now := env.e.regArr(env.st, s.Reg, "", es)
		was := env.e.regArr(env.old, s.Reg, "", es)
		lo, hi := BVBin("bvadd", s.Base, env.idx64(n.Args[1])), BVBin("bvadd", s.Base, env.idx64(n.Args[2]))
		return env.rangeForall(func(j T) T {
			return Eq(Select(now, j), Select(was, j))
		}, lo, hi, func(j T) T { return Select(now, j) })
	}
	// unchanged_outside(s, lo, hi): every element of the region of s outside s[lo:hi) is as in the old state
	specFuncs["unchanged_outside"] = func(env *Env, n *ECall) Value {
		if len(n.Args) != 3 {
			env.fail("unchanged_outside expects 3 arguments")
		}
		s := env.sliceArg(n.Args[0])
		if s.Reg == nil {
			return VBool{True}
		}
		es, ok := elemSort(s.Elem)
		if !ok {
			env.fail("unchanged_outside over non-scalar elements")
		}
		now := env.e.regArr(env.st, s.Reg, "", es)
		was := env.e.regArr(env.old, s.Reg, "", es)
		lo, hi := BVBin("bvadd", s.Base, env.idx64(n.Args[1])), BVBin("bvadd", s.Base, env.idx64(n.Args[2]))
		body := func(k T) T {
			return Implies(Or(BVCmp("bvslt", k, lo), BVCmp("bvsge", k, hi)), Eq(Select(now, k), Select(was, k)))
		}
		if env.pos {
			k := env.e.fresh("sk_k", BV64)
			return VBool{body(k)}
		}
		env.e.nbound++
		k := Sym("k!u"+itoa(env.e.nbound), BV64)
		return VBool{Forall([]T{k}, body(k), Select(now, k))}
	}
}

func init() {
	// av(x): the value held by an atomic.Value field declared with `atomic`
	specFuncs["av"] = func(env *Env, n *ECall) Value {
		if len(n.Args) != 1 {
			env.fail("av expects 1 argument")
		}
		v := env.eval(n.Args[0])
		if vi, ok := v.(VIface); ok && vi.Dyn != nil {
			return vi.Val
		}
		env.fail("av: not a declared atomic value (%T)", v)
		return nil
	}
}

func init() {
	// sameslice(a, b): same backing region, base, len and cap
	specFuncs["sameslice"] = func(env *Env, n *ECall) Value {
		if len(n.Args) != 2 {
			env.fail("sameslice expects 2 arguments")
		}
		a, b := env.sliceArg(n.Args[0]), env.sliceArg(n.Args[1])
		if a.Reg != b.Reg {
			if !env.pos {
				// region identity is decided at the Go level; as an assumption a
				// negative answer may be an artefact of havoc, so assume nothing
				return VBool{env.e.fresh("sameslice?", BoolSort)}
			}
			return VBool{False}
		}
		return VBool{And(Eq(a.Base, b.Base), Eq(a.Len, b.Len), Eq(a.Cap, b.Cap))}
	}
}

func init() {
	// closed(ch): the channel has been closed
	specFuncs["closed"] = func(env *Env, n *ECall) Value {
		if len(n.Args) != 1 {
			env.fail("closed expects 1 argument")
		}
		v := env.eval(n.Args[0])
		ch, ok := v.(VChan)
		if !ok || ch.Obj == nil {
			if ok {
				return VBool{False}
			}
			env.fail("closed: not a channel (%T)", v)
		}
		key := "closed:" + ch.Obj.Name
		if g, have := env.st.Ghost[key]; have {
			return g
		}
		return VBool{env.e.declare(key, BoolSort)}
	}
}

func itoa(i int) string {
	if i == 0 {
		return "0"
	}
	s := ""
	for i > 0 {
		s = string(rune('0'+i%10)) + s
		i /= 10
	}
	return s
}


func init() {
	// errmsg(err): the text err.Error() returns (compare with a string literal)
	specFuncs["errmsg"] = func(env *Env, n *ECall) Value {
		v, ok := env.eval(n.Args[0]).(VErr)
		if !ok {
			env.fail("errmsg expects an error")
		}
		env.e.specFns["errmsg"] = true
		return VStr{T: UF("errmsg", BV32, v.T)}
	}
	// inset(s, k): membership in a ghost set of uint64
	specFuncs["inset"] = func(env *Env, n *ECall) Value {
		if len(n.Args) != 2 {
			env.fail("inset expects (set, key)")
		}
		sv, ok := env.eval(n.Args[0]).(VTerm)
		if !ok {
			env.fail("inset: not a ghost set")
		}
		k := coerceUntyped(env.evalInt(n.Args[1]), 64, false).T
		return VBool{Select(sv.T, k)}
	}
	// Go maps with scalar keys and values: mhas(m, k), mget(m, k), mlen(m)
	mapOf := func(env *Env, x Expr) (present, vals, ln T) {
		m, ok := env.eval(x).(VMap)
		if !ok {
			env.fail("expected a Go map")
		}
		p, v, l, ok := env.e.mapParts(env.st, m)
		if !ok {
			env.fail("map with unsupported key or element type")
		}
		return p, v, l
	}
	specFuncs["mhas"] = func(env *Env, n *ECall) Value {
		p, _, _ := mapOf(env, n.Args[0])
		k := coerceUntyped(env.evalInt(n.Args[1]), p.Sort.Idx.W, false).T
		return VBool{Select(p, k)}
	}
	specFuncs["mget"] = func(env *Env, n *ECall) Value {
		p, v, _ := mapOf(env, n.Args[0])
		k := coerceUntyped(env.evalInt(n.Args[1]), p.Sort.Idx.W, false).T
		return VInt{T: Select(v, k)}
	}
	specFuncs["mlen"] = func(env *Env, n *ECall) Value {
		_, _, l := mapOf(env, n.Args[0])
		return VInt{T: l, Signed: true}
	}
	// rangevisited(k): the key k has already been produced by the (innermost,
	// most recent) range-over-map loop of the current function
	specFuncs["rangevisited"] = func(env *Env, n *ECall) Value {
		if env.fr == nil {
			env.fail("rangevisited outside a function body")
		}
		best := ""
		bestN := -1
		for _, v := range env.fr.Vals {
			if it, ok := v.(VIter); ok && it.ID != "" {
				var num int
				fmt.Sscanf(it.ID, "iter#%d", &num)
				if num > bestN {
					bestN, best = num, it.ID
				}
			}
		}
		if best == "" {
			env.fail("rangevisited: no range-over-map loop in scope")
		}
		vis, ok := env.st.Ghost[best+":visited"].(VTerm)
		if !ok {
			env.fail("rangevisited: iterator state missing")
		}
		k := coerceUntyped(env.evalInt(n.Args[0]), vis.T.Sort.Idx.W, false).T
		return VBool{Select(vis.T, k)}
	}
}
