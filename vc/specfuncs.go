package main

// Additional spec functions of the contract language.

func init() {
	// unchanged(s, lo, hi): s[k] == old(s[k]) for lo <= k < hi (same region, indices relative to s in the current state)
	specFuncs["unchanged"] = func(env *Env, n *ECall) Value {
		if len(n.Args) != 3 {
			env.fail("unchanged expects 3 arguments")
		}
		s := env.sliceArg(n.Args[0])
		if s.Reg == nil {
			return VBool{True}
		}
		es, ok := elemSort(s.Elem)
		if !ok {
			env.fail("unchanged over non-scalar elements")
		}
		now := env.e.regArr(env.st, s.Reg, "", es)
		was := env.e.regArr(env.old, s.Reg, "", es)
		lo, hi := env.idx64(n.Args[1]), env.idx64(n.Args[2])
		return env.rangeForall(func(k T) T {
			i := BVBin("bvadd", s.Base, k)
			return Eq(Select(now, i), Select(was, i))
		}, lo, hi, func(k T) T { return Select(now, BVBin("bvadd", s.Base, k)) })
	}
	// unchanged_outside(s, lo, hi): every element of the region of s outside s[lo:hi) is as in the old state
	specFuncs["unchanged_outside"] = func(env *Env, n *ECall) Value {
		if len(n.Args) != 3 {
			env.fail("unchanged_outside expects 3 arguments")
		}
		s := env.sliceArg(n.Args[0])
		if s.Reg == nil {
			return VBool{True}
		}
		es, ok := elemSort(s.Elem)
		if !ok {
			env.fail("unchanged_outside over non-scalar elements")
		}
		now := env.e.regArr(env.st, s.Reg, "", es)
		was := env.e.regArr(env.old, s.Reg, "", es)
		lo, hi := BVBin("bvadd", s.Base, env.idx64(n.Args[1])), BVBin("bvadd", s.Base, env.idx64(n.Args[2]))
		body := func(k T) T {
			return Implies(Or(BVCmp("bvslt", k, lo), BVCmp("bvsge", k, hi)), Eq(Select(now, k), Select(was, k)))
		}
		if env.pos {
			k := env.e.fresh("sk_k", BV64)
			return VBool{body(k)}
		}
		env.e.nbound++
		k := Sym("k!u"+itoa(env.e.nbound), BV64)
		return VBool{Forall([]T{k}, body(k), Select(now, k))}
	}
}

func itoa(i int) string {
	if i == 0 {
		return "0"
	}
	s := ""
	for i > 0 {
		s = string(rune('0'+i%10)) + s
		i /= 10
	}
	return s
}
