package main

// Assumed contracts of standard-library / third-party functions, written as
// Go handlers over the symbolic state. Every entry used by a check is listed
// in that check's evidence under trusted_base.

import (
	"fmt"
	"go/types"

	"golang.org/x/tools/go/ssa"
)

type intrinsic func(e *Exec, st *State, fr *Frame, args []Value, instr ssa.Instruction) Value
type ifaceIntrinsic func(e *Exec, st *State, fr *Frame, recv Value, args []Value, instr ssa.Instruction) Value

var intrinsics = map[string]intrinsic{}
var ifaceIntrinsics = map[string]ifaceIntrinsic{}

func byteRegion(e *Exec, st *State, s VSlice) T {
	if s.Reg == nil {
		return e.fresh("nilarr", ByteArr)
	}
	return e.regArr(st, s.Reg, "", BV8)
}

func putLE(e *Exec, st *State, instr ssa.Instruction, b VSlice, v T, nbytes int) {
	e.safe(st, instr, "index", BVCmp("bvsle", i64(int64(nbytes)), b.Len))
	if b.Reg == nil {
		st.Dead = true
		return
	}
	a := byteRegion(e, st, b)
	for i := 0; i < nbytes; i++ {
		a = Store(a, BVBin("bvadd", b.Base, i64(int64(i))), Extract(v, 8*i+7, 8*i))
	}
	e.setRegArr(st, b.Reg, "", a)
}

func getLE(e *Exec, st *State, instr ssa.Instruction, b VSlice, nbytes int) T {
	e.safe(st, instr, "index", BVCmp("bvsle", i64(int64(nbytes)), b.Len))
	if b.Reg == nil {
		st.Dead = true
		return BVConst(8*nbytes, 0)
	}
	return leLoad(byteRegion(e, st, b), b.Base, nbytes)
}

func sliceOf(e *Exec, v Value) VSlice {
	if s, ok := v.(VSlice); ok {
		return s
	}
	e.unsupported(fmt.Sprintf("intrinsic expected slice, got %T", v))
	return VSlice{Nil: True, Base: i64(0), Len: i64(0), Cap: i64(0), Elem: types.Typ[types.Uint8]}
}

func init() {
	// encoding/binary little endian
	intrinsics["(encoding/binary.littleEndian).PutUint16"] = func(e *Exec, st *State, fr *Frame, a []Value, in ssa.Instruction) Value {
		putLE(e, st, in, sliceOf(e, a[1]), a[2].(VInt).T, 2)
		return nil
	}
	intrinsics["(encoding/binary.littleEndian).PutUint32"] = func(e *Exec, st *State, fr *Frame, a []Value, in ssa.Instruction) Value {
		putLE(e, st, in, sliceOf(e, a[1]), a[2].(VInt).T, 4)
		return nil
	}
	intrinsics["(encoding/binary.littleEndian).PutUint64"] = func(e *Exec, st *State, fr *Frame, a []Value, in ssa.Instruction) Value {
		putLE(e, st, in, sliceOf(e, a[1]), a[2].(VInt).T, 8)
		return nil
	}
	intrinsics["(encoding/binary.littleEndian).Uint16"] = func(e *Exec, st *State, fr *Frame, a []Value, in ssa.Instruction) Value {
		return VInt{T: getLE(e, st, in, sliceOf(e, a[1]), 2)}
	}
	intrinsics["(encoding/binary.littleEndian).Uint32"] = func(e *Exec, st *State, fr *Frame, a []Value, in ssa.Instruction) Value {
		return VInt{T: getLE(e, st, in, sliceOf(e, a[1]), 4)}
	}
	intrinsics["(encoding/binary.littleEndian).Uint64"] = func(e *Exec, st *State, fr *Frame, a []Value, in ssa.Instruction) Value {
		return VInt{T: getLE(e, st, in, sliceOf(e, a[1]), 8)}
	}
	// bytes.Equal(a, b): len equal and contents equal. The result is a fresh
	// boolean r with r <=> (len(a)==len(b) && forall k<len: a[k]==b[k]); the
	// "<=" direction uses a skolem witness function.
	intrinsics["bytes.Equal"] = func(e *Exec, st *State, fr *Frame, a []Value, in ssa.Instruction) Value {
		x, y := sliceOf(e, a[0]), sliceOf(e, a[1])
		r := e.fresh("bytesEqual", BoolSort)
		xa, ya := byteRegion(e, st, x), byteRegion(e, st, y)
		if x.Len.Const && x.Len.V <= 16 && y.Len.Const && x.Len.V == y.Len.V {
			var cs []T
			for i := uint64(0); i < x.Len.V; i++ {
				cs = append(cs, Eq(Select(xa, BVBin("bvadd", x.Base, i64(int64(i)))), Select(ya, BVBin("bvadd", y.Base, i64(int64(i))))))
			}
			return VBool{And(cs...)}
		}
		w := e.fresh("bytesEqualWit", BV64)
		e.nbound++
		k := Sym(fmt.Sprintf("k!q%d", e.nbound), BV64)
		inr := func(k T) T { return And(BVCmp("bvsle", i64(0), k), BVCmp("bvslt", k, x.Len)) }
		eqAt := func(k T) T {
			return Eq(Select(xa, BVBin("bvadd", x.Base, k)), Select(ya, BVBin("bvadd", y.Base, k)))
		}
		st.assume(Implies(r, And(Eq(x.Len, y.Len), Forall([]T{k}, Implies(inr(k), eqAt(k)), Select(xa, BVBin("bvadd", x.Base, k))))))
		st.assume(Implies(Not(r), Or(Ne(x.Len, y.Len), And(inr(w), Not(eqAt(w))))))
		return VBool{r}
	}
	// fmt.Errorf: a fresh non-nil error; if the format contains %w the first
	// error-typed variadic argument is wrapped.
	intrinsics["fmt.Errorf"] = func(e *Exec, st *State, fr *Frame, a []Value, in ssa.Instruction) Value {
		var wraps *T
		if f, ok := a[0].(VStr); ok && f.Lit != nil && containsW(*f.Lit) {
			if va, ok := a[1].(VSlice); ok && va.Reg != nil && va.Len.Const {
				for i := uint64(0); i < va.Len.V; i++ {
					if t, ok := e.variadicErr(st, va, i); ok {
						wraps = &t
						break
					}
				}
			}
		}
		return e.freshErr(st, "errorf", wraps)
	}
	intrinsics["errors.New"] = func(e *Exec, st *State, fr *Frame, a []Value, in ssa.Instruction) Value {
		return e.freshErr(st, "new", nil)
	}
	intrinsics["errors.Is"] = func(e *Exec, st *State, fr *Frame, a []Value, in ssa.Instruction) Value {
		return VBool{e.errIs(e.errTerm(a[0]), e.errTerm(a[1]))}
	}
	intrinsics["fmt.Sprintf"] = func(e *Exec, st *State, fr *Frame, a []Value, in ssa.Instruction) Value {
		return VStr{T: e.fresh("sprintf", BV32)}
	}
	// hash/crc32
	intrinsics["hash/crc32.Checksum"] = func(e *Exec, st *State, fr *Frame, a []Value, in ssa.Instruction) Value {
		s := sliceOf(e, a[0])
		e.specFns["crcU"] = true
		return VInt{T: UF("crcU", BV32, BVConst(32, 0), byteRegion(e, st, s), s.Base, BVBin("bvadd", s.Base, s.Len))}
	}
	intrinsics["hash/crc32.Update"] = func(e *Exec, st *State, fr *Frame, a []Value, in ssa.Instruction) Value {
		s := sliceOf(e, a[2])
		e.specFns["crcU"] = true
		return VInt{T: UF("crcU", BV32, a[0].(VInt).T, byteRegion(e, st, s), s.Base, BVBin("bvadd", s.Base, s.Len))}
	}
	// sync/atomic on plain words: sequentially consistent loads/stores
	atomicLoad := func(e *Exec, st *State, fr *Frame, a []Value, in ssa.Instruction) Value {
		p := a[0].(VPtr)
		e.safe(st, in, "nil", Not(p.Nil))
		return e.load(st, p.Loc, p.Elem)
	}
	atomicStore := func(e *Exec, st *State, fr *Frame, a []Value, in ssa.Instruction) Value {
		p := a[0].(VPtr)
		e.safe(st, in, "nil", Not(p.Nil))
		e.atomicStoreSite(st, fr, p, a[1], in)
		e.storeLoc(st, p.Loc, a[1])
		return nil
	}
	atomicSwap := func(e *Exec, st *State, fr *Frame, a []Value, in ssa.Instruction) Value {
		p := a[0].(VPtr)
		e.safe(st, in, "nil", Not(p.Nil))
		old := e.load(st, p.Loc, p.Elem)
		e.storeLoc(st, p.Loc, a[1])
		return old
	}
	atomicAdd := func(e *Exec, st *State, fr *Frame, a []Value, in ssa.Instruction) Value {
		p := a[0].(VPtr)
		e.safe(st, in, "nil", Not(p.Nil))
		old := e.load(st, p.Loc, p.Elem).(VInt)
		nv := VInt{T: BVBin("bvadd", old.T, a[1].(VInt).T), Signed: old.Signed}
		e.storeLoc(st, p.Loc, nv)
		return nv
	}
	for _, ty := range []string{"Uint64", "Uint32", "Int64", "Int32"} {
		intrinsics["sync/atomic.Load"+ty] = atomicLoad
		intrinsics["sync/atomic.Store"+ty] = atomicStore
		intrinsics["sync/atomic.Swap"+ty] = atomicSwap
		intrinsics["sync/atomic.Add"+ty] = atomicAdd
	}
	// atomic.Value: a cell holding an interface value
	intrinsics["(*sync/atomic.Value).Load"] = func(e *Exec, st *State, fr *Frame, a []Value, in ssa.Instruction) Value {
		p := a[0].(VPtr)
		e.safe(st, in, "nil", Not(p.Nil))
		v := e.load(st, p.Loc, p.Elem)
		if _, ok := v.(VIface); ok {
			return v
		}
		// undeclared atomic.Value: unknown content
		return VIface{Nil: e.fresh("avnil", BoolSort), Obj: e.lazyObject(p.Loc.String()+"^", p.Elem)}
	}
	intrinsics["(*sync/atomic.Value).Store"] = func(e *Exec, st *State, fr *Frame, a []Value, in ssa.Instruction) Value {
		p := a[0].(VPtr)
		e.safe(st, in, "nil", Not(p.Nil))
		e.atomicStoreSite(st, fr, p, a[1], in)
		e.storeLoc(st, p.Loc, a[1])
		return nil
	}
	intrinsics["(*sync/atomic.Value).Swap"] = func(e *Exec, st *State, fr *Frame, a []Value, in ssa.Instruction) Value {
		p := a[0].(VPtr)
		e.safe(st, in, "nil", Not(p.Nil))
		old := e.load(st, p.Loc, p.Elem)
		e.storeLoc(st, p.Loc, a[1])
		if _, ok := old.(VIface); !ok {
			return VIface{Nil: e.fresh("avnil", BoolSort), Obj: e.lazyObject(p.Loc.String()+"^", p.Elem)}
		}
		return old
	}
	// mutexes: no-ops under the sequential semantics
	for _, n := range []string{"(*sync.Mutex).Lock", "(*sync.Mutex).Unlock", "(*sync.RWMutex).Lock", "(*sync.RWMutex).Unlock", "(*sync.RWMutex).RLock", "(*sync.RWMutex).RUnlock"} {
		name := n
		intrinsics[name] = func(e *Exec, st *State, fr *Frame, a []Value, in ssa.Instruction) Value {
			st.Trace = append(st.Trace, name)
			return nil
		}
	}
	intrinsics["strings.HasSuffix"] = func(e *Exec, st *State, fr *Frame, a []Value, in ssa.Instruction) Value {
		return VBool{e.fresh("hasSuffix", BoolSort)}
	}
	intrinsics["time.Now"] = func(e *Exec, st *State, fr *Frame, a []Value, in ssa.Instruction) Value {
		t := e.fresh("now", BV64)
		st.assume(Ne(t, BVConst(64, 0)))
		return VOpaque{T: t, Typ: in.(ssa.Value).Type()}
	}
	intrinsics["(time.Time).IsZero"] = func(e *Exec, st *State, fr *Frame, a []Value, in ssa.Instruction) Value {
		return VBool{Eq(a[0].(VOpaque).T, BVConst(64, 0))}
	}
	intrinsics["(time.Time).Sub"] = func(e *Exec, st *State, fr *Frame, a []Value, in ssa.Instruction) Value {
		return VInt{T: e.fresh("dur", BV64), Signed: true}
	}
	intrinsics["time.Since"] = func(e *Exec, st *State, fr *Frame, a []Value, in ssa.Instruction) Value {
		return VInt{T: e.fresh("dur", BV64), Signed: true}
	}
	intrinsics["(time.Duration).Seconds"] = func(e *Exec, st *State, fr *Frame, a []Value, in ssa.Instruction) Value {
		return VOpaque{T: e.fresh("secs", BV64), Typ: types.Typ[types.Float64]}
	}
}

func containsW(s string) bool {
	for i := 0; i+1 < len(s); i++ {
		if s[i] == '%' && s[i+1] == 'w' {
			return true
		}
	}
	return false
}

// variadicErr reads element i of a []interface{} variadic argument and
// returns it if it is an error value.
func (e *Exec) variadicErr(st *State, va VSlice, i uint64) (T, bool) {
	v, ok := e.anyElems[fmt.Sprintf("%s[%d]", va.Reg.Name, i)]
	if !ok {
		return T{}, false
	}
	if ve, ok := v.(VErr); ok {
		return ve.T, true
	}
	if vi, ok := v.(VIface); ok {
		if ve, ok := vi.Val.(VErr); ok {
			return ve.T, true
		}
	}
	return T{}, false
}

// atomicStoreSite evaluates `site atomic-store(<field>)` clauses of the unit's contract.
func (e *Exec) atomicStoreSite(st *State, fr *Frame, p VPtr, v Value, in ssa.Instruction) {
	c := e.contract
	if c == nil || p.Loc == nil {
		return
	}
	fname := ""
	if p.Loc.Obj != nil && len(p.Loc.Path) > 0 {
		t := typeAtPath(p.Loc.Obj.Typ, p.Loc.Path[:len(p.Loc.Path)-1])
		if s := structOf(t); s != nil {
			fname = s.Field(p.Loc.Path[len(p.Loc.Path)-1]).Name()
		}
	}
	for _, sc := range c.Sites {
		if sc.Callee != "atomic-store("+fname+")" {
			continue
		}
		env := e.frameEnv(st, fr)
		env.vars["stored"] = v
		if vi, ok := v.(VIface); ok && vi.Dyn != nil {
			env.vars["stored"] = vi.Val
		}
		g := env.evalBool(sc.Clause.E)
		name := fmt.Sprintf("%s/site[%s]", e.ordinalName(in, "atomic-store"), joinLabels(sc.Clause.Labels))
		e.emit(st, name, "site", sc.Clause.Labels, g, e.where(in))
	}
}

func joinLabels(ls []string) string {
	s := ""
	for i, l := range ls {
		if i > 0 {
			s += ","
		}
		s += l
	}
	return s
}

func init() {
	// sync.Pool of byte buffers: Get yields a []byte of len == cap == segment.minBufSize
	// (assumption: the pool's New function and every Put hand in such slices;
	// established by segment.NewFiler and Reader.makeBuffer's CloseFn).
	intrinsics["(*sync.Pool).Get"] = func(e *Exec, st *State, fr *Frame, a []Value, in ssa.Instruction) Value {
		bt := types.NewSlice(types.Typ[types.Uint8])
		n := i64(64 * 1024)
		s := e.newSlice(st, types.Typ[types.Uint8], n, n, fmt.Sprintf("pool#%d", e.nobj+1))
		// contents of a pooled buffer are arbitrary
		s.Reg.Init = nil
		return VIface{Nil: False, Dyn: bt, Val: s}
	}
	intrinsics["(*sync.Pool).Put"] = func(e *Exec, st *State, fr *Frame, a []Value, in ssa.Instruction) Value {
		return nil
	}
	// fmt.Sprintf with a literal format and integer arguments is an
	// uninterpreted injective-free function of its arguments (sprintfN).
	intrinsics["fmt.Sprintf"] = func(e *Exec, st *State, fr *Frame, a []Value, in ssa.Instruction) Value {
		f, ok := a[0].(VStr)
		va, ok2 := a[1].(VSlice)
		if ok && ok2 && f.Lit != nil && va.Reg != nil && va.Len.Const && va.Len.V <= 4 {
			args := []T{f.T}
			good := true
			for i := uint64(0); i < va.Len.V; i++ {
				v, have := e.anyElems[fmt.Sprintf("%s[%d]", va.Reg.Name, i)]
				if !have {
					good = false
					break
				}
				if vi, isI := v.(VIface); isI {
					v = vi.Val
				}
				iv, isInt := v.(VInt)
				if !isInt {
					good = false
					break
				}
				args = append(args, ZeroExt(iv.T, 64))
			}
			if good {
				name := fmt.Sprintf("sprintf%d", len(args)-1)
				e.specFns[name] = true
				registerSprintf(len(args) - 1)
				return VStr{T: UF(name, BV32, args...)}
			}
		}
		return VStr{T: e.fresh("sprintf", BV32)}
	}
	specFuncs["sprintf"] = func(env *Env, n *ECall) Value {
		if len(n.Args) < 1 {
			env.fail("sprintf needs a format")
		}
		f, ok := env.eval(n.Args[0]).(VStr)
		if !ok {
			env.fail("sprintf format must be a string")
		}
		args := []T{f.T}
		for _, a := range n.Args[1:] {
			args = append(args, ZeroExt(coerceUntyped(env.evalInt(a), 64, false).T, 64))
		}
		name := fmt.Sprintf("sprintf%d", len(args)-1)
		registerSprintf(len(args) - 1)
		return VStr{T: UF(name, BV32, args...)}
	}
}

func registerSprintf(n int) {
	name := fmt.Sprintf("sprintf%d", n)
	if _, ok := extraPreludes[name]; ok {
		return
	}
	decl := "(declare-fun " + name + " ((_ BitVec 32)"
	for i := 0; i < n; i++ {
		decl += " (_ BitVec 64)"
	}
	decl += ") (_ BitVec 32))\n"
	extraPreludes[name] = decl
	extraPreludeOrder = append(extraPreludeOrder, name)
}

func init() {
	// hclog.Default() never returns nil.
	intrinsics["github.com/hashicorp/go-hclog.Default"] = func(e *Exec, st *State, fr *Frame, a []Value, in ssa.Instruction) Value {
		v := e.materialize(e.freshName("hclogDefault"), in.(ssa.Value).Type())
		if vi, ok := v.(VIface); ok {
			vi.Nil = False
			return vi
		}
		return v
	}
}

func init() {
	// metrics.Collector: per-name ghost counters/gauges (names are literals at
	// every call site, see the static C20 obligations)
	ifaceIntrinsics["metrics.Collector.IncrementCounter"] = func(e *Exec, st *State, fr *Frame, recv Value, a []Value, in ssa.Instruction) Value {
		st.Trace = append(st.Trace, "call:metrics.Collector.IncrementCounter")
		name, ok := a[0].(VStr)
		d, ok2 := a[1].(VInt)
		if ok && ok2 && name.Lit != nil {
			key := "counter:" + *name.Lit
			cur := e.counterGet(st, key)
			st.Ghost[key] = VInt{T: BVBin("bvadd", cur.T, d.T)}
			st.Writes["ghost:"+key] = true
		}
		return nil
	}
	ifaceIntrinsics["metrics.Collector.SetGauge"] = func(e *Exec, st *State, fr *Frame, recv Value, a []Value, in ssa.Instruction) Value {
		st.Trace = append(st.Trace, "call:metrics.Collector.SetGauge")
		return nil
	}
	specFuncs["counter"] = func(env *Env, n *ECall) Value {
		s, ok := n.Args[0].(*EStr)
		if len(n.Args) != 1 || !ok {
			env.fail("counter expects a string literal")
		}
		return env.e.counterGet(env.st, "counter:"+s.V)
	}
	// bytes.Buffer as used by WAL.StoreLogs: an opaque byte sink; Bytes()
	// yields an arbitrary fresh slice
	intrinsics["(*bytes.Buffer).Bytes"] = func(e *Exec, st *State, fr *Frame, a []Value, in ssa.Instruction) Value {
		v := e.materialize(e.freshName("bufbytes"), types.NewSlice(types.Typ[types.Uint8]))
		return v
	}
}

func (e *Exec) counterGet(st *State, key string) VInt {
	if v, ok := st.Ghost[key]; ok {
		return v.(VInt)
	}
	return VInt{T: e.declare(key, BV64)}
}
