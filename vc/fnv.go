package main

// Model of github.com/segmentio/fasthash/fnv1a (64-bit FNV-1a), transcribed
// from the vendored source: AddUint64 mixes the 8 bytes of u little-endian
// first, AddBytes64 mixes each byte in order; one step is (h ^ b) * prime64.

import (
	"golang.org/x/tools/go/ssa"
)

const fnvPrime64 = 1099511628211

func fnvStep(h, b8 T) T {
	return BVBin("bvmul", BVBin("bvxor", h, ZeroExt(b8, 64)), u64(fnvPrime64))
}

func fnvU64(h, u T) T {
	for i := 0; i < 8; i++ {
		h = fnvStep(h, Extract(u, 8*i+7, 8*i))
	}
	return h
}

const fnvPrelude = `
(declare-fun fnvB ((_ BitVec 64) (Array (_ BitVec 64) (_ BitVec 8)) (_ BitVec 64) (_ BitVec 64)) (_ BitVec 64))
(assert (forall ((h (_ BitVec 64)) (a (Array (_ BitVec 64) (_ BitVec 8))) (lo (_ BitVec 64)) (hi (_ BitVec 64)))
  (! (=> (= lo hi) (= (fnvB h a lo hi) h)) :pattern ((fnvB h a lo hi)))))
(assert (forall ((h (_ BitVec 64)) (a (Array (_ BitVec 64) (_ BitVec 8))) (lo (_ BitVec 64)) (hi (_ BitVec 64)))
  (! (=> (bvslt lo hi) (= (fnvB h a lo hi) (fnvB (bvmul (bvxor h ((_ zero_extend 56) (select a lo))) #x00000100000001b3) a (bvadd lo #x0000000000000001) hi))) :pattern ((fnvB h a lo hi)))))
`

func init() {
	specPreludes["fnvB"] = fnvPrelude
	specPreludeOrder = append(specPreludeOrder, "fnvB")
	intrinsics["github.com/segmentio/fasthash/fnv1a.AddUint64"] = func(e *Exec, st *State, fr *Frame, a []Value, in ssa.Instruction) Value {
		return VInt{T: fnvU64(a[0].(VInt).T, a[1].(VInt).T)}
	}
	intrinsics["github.com/segmentio/fasthash/fnv1a.AddBytes64"] = func(e *Exec, st *State, fr *Frame, a []Value, in ssa.Instruction) Value {
		s := sliceOf(e, a[1])
		e.specFns["fnvB"] = true
		return VInt{T: UF("fnvB", BV64, a[0].(VInt).T, byteRegion(e, st, s), s.Base, BVBin("bvadd", s.Base, s.Len))}
	}
	// fnvu64(h, u), fnvbytes(h, s)
	specFuncs["fnvu64"] = func(env *Env, n *ECall) Value {
		h := coerceUntyped(env.evalInt(n.Args[0]), 64, false).T
		u := coerceUntyped(env.evalInt(n.Args[1]), 64, false).T
		return VInt{T: fnvU64(h, u)}
	}
	specFuncs["fnvbytes"] = func(env *Env, n *ECall) Value {
		h := coerceUntyped(env.evalInt(n.Args[0]), 64, false).T
		s := env.sliceArg(n.Args[1])
		env.e.specFns["fnvB"] = true
		return VInt{T: UF("fnvB", BV64, h, env.byteArr(s), s.Base, BVBin("bvadd", s.Base, s.Len))}
	}
	specFuncs["fnvstep"] = func(env *Env, n *ECall) Value {
		h := coerceUntyped(env.evalInt(n.Args[0]), 64, false).T
		b := coerceUntyped(env.evalInt(n.Args[1]), 8, false).T
		return VInt{T: fnvStep(h, b)}
	}
}
