package main

// Maps, iterators, select, ghost state.

import (
	"fmt"
	"go/types"

	"golang.org/x/tools/go/ssa"
)

// VTerm wraps a raw SMT term (ghost arrays etc).
type VTerm struct{ T T }

func (st *State) takeForks() []*State {
	f := st.pendingForks
	st.pendingForks = nil
	return f
}

// ghost field kinds by name (ghost fields of abstract interface objects).
var ghostKinds = map[string]string{
	"dirty": "bool", "dirLinked": "bool", "closed": "bool", "open": "bool", "exists": "bool",
	"size": "int", "nwrites": "int", "nsyncs": "int", "fresh": "bool", "isnew": "bool",
	"synced": "bool", "created": "bool", "locked": "bool",
	"first": "uint64", "last": "uint64", "nstored": "int", "ncalls": "int",
	"persistedID": "uint64", "commits": "int",
	"deleted": "set64", "listed": "set64",
	"data": "bytes", "codecID": "uint64", "ctxerr": "error", "base": "uint64", "sealed": "bool", "indexStart": "uint64",
}

// ghostGlobal returns the value of a ghost global integer (names g_*).
func (e *Exec) ghostGlobal(st *State, name string) Value {
	if v, ok := st.Ghost[name]; ok {
		return v
	}
	return VInt{T: e.declare(name, BV64), Signed: true}
}

func (e *Exec) ghostKey(obj *Object, name string) string { return obj.Name + "#" + name }

func (e *Exec) ghostGet(st *State, obj *Object, name string) Value {
	key := e.ghostKey(obj, name)
	if v, ok := st.Ghost[key]; ok {
		return v
	}
	kind, ok := ghostKinds[name]
	if !ok {
		panic(contractError{fmt.Sprintf("unknown ghost field %q", name)})
	}
	switch kind {
	case "bool":
		return VBool{e.declare(key, BoolSort)}
	case "int":
		t := e.declare(key, BV64)
		if name == "size" {
			e.addAxiom(And(BVCmp("bvsle", i64(0), t), BVCmp("bvslt", t, i64(1<<maxLenBits))))
		}
		return VInt{T: t, Signed: true}
	case "uint64":
		return VInt{T: e.declare(key, BV64), Signed: false}
	case "error":
		return VErr{e.declare(key, BV32)}
	case "set64":
		// ghost set of uint64 (e.g. the segment IDs whose deletion was requested)
		return VTerm{e.declare(key, ArrSort(BV64, BoolSort))}
	case "bytes":
		// ghost byte sequence (e.g. file contents): a region whose length is
		// the ghost field `size` of the same object
		reg := e.lazyRegion(key, types.Typ[types.Uint8])
		sz := e.ghostGet(st, obj, "size").(VInt).T
		return VSlice{Nil: False, Reg: reg, Base: i64(0), Len: sz, Cap: sz, Elem: types.Typ[types.Uint8]}
	}
	panic(contractError{"bad ghost kind " + kind})
}

func (e *Exec) ghostSet(st *State, obj *Object, name string, v Value) {
	key := e.ghostKey(obj, name)
	st.Ghost[key] = v
	st.Writes["ghost:"+key] = true
}

func (e *Exec) ghostHavoc(st *State, obj *Object, name string, tag string) {
	cur := e.ghostGet(st, obj, name)
	e.ghostSet(st, obj, name, e.havocLike(cur, e.ghostKey(obj, name)+"~"+tag))
}

// ---------------------------------------------------------------------------
// Maps: key/value scalar; model = present array, value array, length.

func (e *Exec) mapSorts(m VMap) (Sort, Sort, types.Type, bool) {
	if m.Obj == nil {
		return Sort{}, Sort{}, nil, false
	}
	mt, ok := m.Obj.Typ.Underlying().(*types.Map)
	if !ok {
		return Sort{}, Sort{}, nil, false
	}
	ks, ok1 := elemSort(mt.Key())
	vs, ok2 := elemSort(mt.Elem())
	if !ok1 {
		return Sort{}, Sort{}, nil, false
	}
	if !ok2 {
		vs = BV64 // opaque element handle
	}
	return ks, vs, mt.Elem(), true
}

func constArr(idx, elem Sort, v T) T {
	return T{S: fmt.Sprintf("((as const %s) %s)", ArrSort(idx, elem).String(), v.S), Sort: ArrSort(idx, elem)}
}

func zeroOf(s Sort) T {
	if s.K == SBool {
		return False
	}
	return BVConst(s.W, 0)
}

func (e *Exec) mapInit(st *State, obj *Object) {
	m := VMap{Obj: obj}
	ks, vs, _, ok := e.mapSorts(m)
	if !ok {
		return
	}
	st.Ghost["map:"+obj.Name+":present"] = VTerm{constArr(ks, BoolSort, False)}
	st.Ghost["map:"+obj.Name+":vals"] = VTerm{constArr(ks, vs, zeroOf(vs))}
	st.Ghost["map:"+obj.Name+":len"] = VInt{T: i64(0), Signed: true}
}

func (e *Exec) mapParts(st *State, m VMap) (present, vals T, ln T, ok bool) {
	ks, vs, _, ok := e.mapSorts(m)
	if !ok {
		e.unsupported("map with non-scalar key")
		return T{}, T{}, T{}, false
	}
	n := m.Obj.Name
	if v, have := st.Ghost["map:"+n+":present"]; have {
		present = v.(VTerm).T
	} else {
		present = e.declare("map:"+n+":present", ArrSort(ks, BoolSort))
	}
	if v, have := st.Ghost["map:"+n+":vals"]; have {
		vals = v.(VTerm).T
	} else {
		vals = e.declare("map:"+n+":vals", ArrSort(ks, vs))
	}
	if v, have := st.Ghost["map:"+n+":len"]; have {
		ln = v.(VInt).T
	} else {
		ln = e.declare("map:"+n+":len", BV64)
		e.addAxiom(BVCmp("bvsle", i64(0), ln))
	}
	return present, vals, ln, true
}

func (e *Exec) mapStoreParts(st *State, m VMap, present, vals, ln T) {
	n := m.Obj.Name
	st.Ghost["map:"+n+":present"] = VTerm{present}
	st.Ghost["map:"+n+":vals"] = VTerm{vals}
	st.Ghost["map:"+n+":len"] = VInt{T: ln, Signed: true}
	st.Writes["ghost:map:"+n+":present"] = true
	st.Writes["ghost:map:"+n+":vals"] = true
	st.Writes["ghost:map:"+n+":len"] = true
}

func scalarTerm(v Value) (T, bool) {
	switch x := v.(type) {
	case VInt:
		return x.T, true
	case VBool:
		return x.T, true
	case VStr:
		return x.T, true
	case VErr:
		return x.T, true
	case VOpaque:
		return x.T, true
	}
	return T{}, false
}

func (e *Exec) wrapScalar(t T, typ types.Type) Value {
	if isErrorType(typ) {
		return VErr{t}
	}
	if w, signed, ok := intInfo(typ); ok && w == t.Sort.W {
		return VInt{T: t, Signed: signed}
	}
	if isBoolType(typ) {
		return VBool{t}
	}
	if isStringType(typ) {
		return VStr{T: t}
	}
	return VOpaque{T: t, Typ: typ}
}

func (e *Exec) mapLen(st *State, m VMap) T {
	if m.Obj == nil {
		return i64(0)
	}
	_, _, ln, ok := e.mapParts(st, m)
	if !ok {
		return e.fresh("maplen", BV64)
	}
	return ln
}

func (e *Exec) mapGet(st *State, m VMap, k VInt) Value {
	present, vals, _, ok := e.mapParts(st, m)
	if !ok {
		return VInt{T: e.fresh("mapget", BV64)}
	}
	kk := coerceUntyped(k, present.Sort.Idx.W, false)
	_, _, et, _ := e.mapSorts(m)
	return e.wrapScalar(Ite(Select(present, kk.T), Select(vals, kk.T), zeroOf(*vals.Sort.Elem)), et)
}

func (e *Exec) mapUpdate(st *State, fr *Frame, in *ssa.MapUpdate) {
	m, ok := e.val(st, fr, in.Map).(VMap)
	if !ok || m.Obj == nil {
		e.unsupported("map update on unknown map")
		return
	}
	e.safe(st, in, "nilmap", Not(m.Nil))
	present, vals, ln, ok := e.mapParts(st, m)
	if !ok {
		return
	}
	kt, ok1 := scalarTerm(e.val(st, fr, in.Key))
	vt, ok2 := scalarTerm(e.val(st, fr, in.Value))
	if !ok1 {
		e.unsupported("map update with non-scalar key")
		return
	}
	if !ok2 {
		vt = e.fresh("mapval", *vals.Sort.Elem)
	}
	nl := Ite(Select(present, kt), ln, BVBin("bvadd", ln, i64(1)))
	e.mapStoreParts(st, m, Store(present, kt, True), Store(vals, kt, vt), nl)
}

func (e *Exec) mapDelete(st *State, mv, kv Value) {
	m, ok := mv.(VMap)
	if !ok || m.Obj == nil {
		return
	}
	present, vals, ln, ok := e.mapParts(st, m)
	if !ok {
		return
	}
	kt, ok1 := scalarTerm(kv)
	if !ok1 {
		e.unsupported("map delete with non-scalar key")
		return
	}
	nl := Ite(Select(present, kt), BVBin("bvsub", ln, i64(1)), ln)
	e.mapStoreParts(st, m, Store(present, kt, False), vals, nl)
}

func (e *Exec) mapLookup(st *State, fr *Frame, in *ssa.Lookup) {
	x := e.val(st, fr, in.X)
	m, ok := x.(VMap)
	if !ok {
		e.unsupported(fmt.Sprintf("Lookup on %T", x))
		fr.Vals[in] = e.materialize(e.freshName("lookup"), in.Type())
		return
	}
	mt := in.X.Type().Underlying().(*types.Map)
	if m.Obj == nil {
		z := e.zeroValue(mt.Elem())
		if in.CommaOk {
			fr.Vals[in] = VTuple{E: []Value{z, VBool{False}}}
		} else {
			fr.Vals[in] = z
		}
		return
	}
	present, vals, _, ok := e.mapParts(st, m)
	kt, ok1 := scalarTerm(e.val(st, fr, in.Index))
	if !ok || !ok1 {
		fr.Vals[in] = e.materialize(e.freshName("lookup"), in.Type())
		return
	}
	has := And(Not(m.Nil), Select(present, kt))
	var v Value
	if _, scalar := elemSort(mt.Elem()); scalar {
		v = e.wrapScalar(Ite(has, Select(vals, kt), zeroOf(*vals.Sort.Elem)), mt.Elem())
	} else {
		v = e.materialize(e.freshName("mapelem"), mt.Elem())
	}
	if in.CommaOk {
		fr.Vals[in] = VTuple{E: []Value{v, VBool{has}}}
	} else {
		fr.Vals[in] = v
	}
}

// VIter is a map iterator.
type VIter struct {
	M  VMap
	ID string
}

func (e *Exec) rangeInit(st *State, fr *Frame, in *ssa.Range) {
	x := e.val(st, fr, in.X)
	m, ok := x.(VMap)
	if !ok {
		e.unsupported(fmt.Sprintf("range over %T", x))
		fr.Vals[in] = VIter{}
		return
	}
	e.nobj++
	id := fmt.Sprintf("iter#%d", e.nobj)
	if ks, _, _, ok := e.mapSorts(m); ok {
		st.Ghost[id+":visited"] = VTerm{constArr(ks, BoolSort, False)}
	}
	fr.Vals[in] = VIter{M: m, ID: id}
}

func (e *Exec) rangeNext(st *State, fr *Frame, in *ssa.Next) {
	it, ok := e.val(st, fr, in.Iter).(VIter)
	tt := in.Type().(*types.Tuple)
	if !ok || it.M.Obj == nil {
		fr.Vals[in] = VTuple{E: []Value{VBool{False}, e.zeroValue(tt.At(1).Type()), e.zeroValue(tt.At(2).Type())}}
		return
	}
	present, vals, _, ok := e.mapParts(st, it.M)
	if !ok {
		fr.Vals[in] = VTuple{E: []Value{VBool{e.fresh("iterok", BoolSort)}, e.materialize(e.freshName("k"), tt.At(1).Type()), e.materialize(e.freshName("v"), tt.At(2).Type())}}
		return
	}
	visited := st.Ghost[it.ID+":visited"].(VTerm).T
	okb := e.fresh("iterok", BoolSort)
	k := e.fresh("iterk", *present.Sort.Idx)
	st.assume(Implies(okb, And(Select(present, k), Not(Select(visited, k)))))
	e.nbound++
	q := Sym(fmt.Sprintf("k!q%d", e.nbound), *present.Sort.Idx)
	st.assume(Implies(Not(okb), Forall([]T{q}, Implies(Select(present, q), Select(visited, q)), Select(visited, q))))
	st.Ghost[it.ID+":visited"] = VTerm{Store(visited, k, True)}
	st.Writes["ghost:"+it.ID+":visited"] = true
	mt := it.M.Obj.Typ.Underlying().(*types.Map)
	var kv, vv Value
	kv = e.wrapScalar(k, mt.Key())
	if _, scalar := elemSort(mt.Elem()); scalar {
		vv = e.wrapScalar(Select(vals, k), mt.Elem())
	} else {
		vv = e.materialize(e.freshName("mapelem"), mt.Elem())
	}
	if isInvalidType(tt.At(1).Type()) {
		kv = nil
	}
	if isInvalidType(tt.At(2).Type()) {
		vv = nil
	}
	fr.Vals[in] = VTuple{E: []Value{VBool{okb}, kv, vv}}
}

func isInvalidType(t types.Type) bool {
	b, ok := t.(*types.Basic)
	return ok && b.Kind() == types.Invalid
}

// selectOp models select statements by forking one state per case (plus
// default when non-blocking); each fork records a trace event.
func (e *Exec) selectOp(st *State, fr *Frame, in *ssa.Select) {
	tt := in.Type().(*types.Tuple)
	mk := func(idx int) Value {
		vt := VTuple{E: []Value{VInt{T: i64(int64(idx)), Signed: true}, VBool{e.fresh("recvok", BoolSort)}}}
		for i := 2; i < tt.Len(); i++ {
			vt.E = append(vt.E, e.materialize(e.freshName("recv"), tt.At(i).Type()))
		}
		return vt
	}
	if in.Blocking {
		st.Effects = append(st.Effects, "blocking-select")
	}
	type alt struct {
		idx int
		ev  string
	}
	var alts []alt
	for i, s := range in.States {
		dir := "recv"
		if s.Dir == types.SendOnly {
			dir = "send"
			// whichever alternative is taken, the value offered must satisfy the channel's invariant
			e.checkChanInv(st, fr, in, s.Chan, e.val(st, fr, s.Send))
		}
		alts = append(alts, alt{i, fmt.Sprintf("select:%s:%d", dir, i)})
	}
	if !in.Blocking {
		alts = append(alts, alt{-1, "select:default"})
	}
	// first alternative continues in st; others fork
	for i := 1; i < len(alts); i++ {
		f := st.clone()
		f.PathID += fmt.Sprintf("s%d", i)
		f.Trace = append(f.Trace, alts[i].ev)
		f.ForkRes = mk(alts[i].idx)
		f.top().Vals[in] = f.ForkRes
		f.top().PC++
		st.pendingSimpleForks = append(st.pendingSimpleForks, f)
	}
	st.Trace = append(st.Trace, alts[0].ev)
	fr.Vals[in] = mk(alts[0].idx)
}
