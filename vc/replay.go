package main

// Replay of solver counterexamples against the real code.
//
// For a refuted obligation of a unit whose parameters are integers, booleans,
// byte/uint32 slices, structs of those, or pointers to such structs, the model
// is turned into a concrete in-package Go test (injected with `go test
// -overlay`, nothing is written into /repo). The test calls the real function
// on the model's inputs and observes the property-level effect: a panic (safety
// obligations) or the negation of the postcondition, which is translated from
// the contract expression to Go. Anything else falls back to the textual replay
// artefact (no-failing-input-found).

import (
	"bytes"
	"fmt"
	"go/types"
	"os"
	"os/exec"
	"path/filepath"
	"sort"
	"strconv"
	"strings"

	"golang.org/x/tools/go/ssa"
)

type rparam struct {
	name  string
	typ   types.Type
	goVar string
}

type replayCtx struct {
	p      *Prog
	fn     *ssa.Function
	o      *Obl
	terms  []string          // SMT terms whose values are requested
	vals   map[string]string // term -> value literal (#x.., true, false)
	decl   map[string]bool
	setup  strings.Builder
	imports map[string]bool
	ok     bool
}

func (p *Prog) tryConcreteReplay(o *Obl, prop, dir, base string) (string, bool) {
	if o.Status != "refuted" || o.Exec == nil || o.Exec.fn == nil || o.Query == "" {
		if o.MetricName != "" {
			return p.metricReplay(o, dir, base)
		}
		return "", false
	}
	if o.Kind != "safe" && o.Kind != "ensures" {
		return "", false
	}
	fn := o.Exec.fn
	if fn.Pkg == nil || len(fn.FreeVars) > 0 || strings.Contains(fn.Name(), "$") {
		return "", false
	}
	rc := &replayCtx{p: p, fn: fn, o: o, vals: map[string]string{}, decl: map[string]bool{}, imports: map[string]bool{"testing": true}}
	for n := range o.Exec.decls {
		rc.decl[n] = true
	}
	// phase 1: scalar values and lengths
	for _, prm := range fn.Params {
		if !rc.collectTerms(sanitize(prm.Name()), prm.Type(), 0) {
			return "", false
		}
	}
	if !rc.getValues() {
		return "", false
	}
	// phase 2: element values of slices up to their model length
	rc.terms = nil
	for _, prm := range fn.Params {
		rc.collectElems(sanitize(prm.Name()), prm.Type())
	}
	if len(rc.terms) > 0 && !rc.getValues() {
		return "", false
	}
	src, ok := rc.render(prop)
	if !ok {
		return "", false
	}
	testFile := filepath.Join(dir, base+"_test.go")
	os.WriteFile(testFile, []byte(src), 0644)
	pkgDir := filepath.Dir(p.fset.Position(fn.Pos()).Filename)
	out, confirmed := runOverlayTest(pkgDir, testFile, "TestReplayCounterexample")
	os.WriteFile(filepath.Join(dir, base+".out.txt"), []byte(out), 0644)
	if !confirmed {
		return "", false
	}
	return testFile, true
}

func runOverlayTest(pkgDir, testFile, run string) (string, bool) {
	tmp, err := os.MkdirTemp("", "walvc-replay")
	if err != nil {
		return err.Error(), false
	}
	defer os.RemoveAll(tmp)
	ov := fmt.Sprintf(`{"Replace": {%q: %q}}`, filepath.Join(pkgDir, "zz_walvc_replay_test.go"), testFile)
	os.WriteFile(filepath.Join(tmp, "ov.json"), []byte(ov), 0644)
	cmd := exec.Command("go", "test", "-overlay", filepath.Join(tmp, "ov.json"), "-vet=off", "-count=1", "-timeout", "60s", "-run", "^"+run+"$", "-v", ".")
	cmd.Dir = pkgDir
	cmd.Env = append(os.Environ(), "GOFLAGS=-mod=mod", "GOPROXY=off", "GOSUMDB=off", "GOTOOLCHAIN=local")
	var out bytes.Buffer
	cmd.Stdout = &out
	cmd.Stderr = &out
	cmd.Run()
	return out.String(), strings.Contains(out.String(), "REPLAY-CONFIRMED")
}

func (rc *replayCtx) want(term string) {
	rc.terms = append(rc.terms, term)
}

func (rc *replayCtx) collectTerms(name string, t types.Type, depth int) bool {
	if depth > 3 {
		return false
	}
	if _, _, ok := intInfo(t); ok {
		rc.want(name)
		return true
	}
	if isBoolType(t) {
		rc.want(name)
		return true
	}
	if isErrorType(t) || isTimeType(t) {
		return true // left at its zero value
	}
	switch u := t.Underlying().(type) {
	case *types.Slice:
		if _, _, ok := intInfo(u.Elem()); !ok {
			return false
		}
		rc.want(name + "?len")
		rc.want(name + "?nil")
		return true
	case *types.Struct:
		if isOpaqueStructType(t) {
			return true
		}
		for i := 0; i < u.NumFields(); i++ {
			ft := u.Field(i).Type()
			if _, isI := ft.Underlying().(*types.Interface); isI && !isErrorType(ft) {
				continue // left nil
			}
			if !rc.collectTerms(name+"."+u.Field(i).Name(), ft, depth+1) {
				return false
			}
		}
		return true
	case *types.Pointer:
		rc.want(name + "?nil")
		if _, ok := u.Elem().Underlying().(*types.Struct); !ok {
			return false
		}
		return rc.collectTerms(name+"^", u.Elem(), depth+1)
	}
	return false
}

func (rc *replayCtx) intVal(term string) (uint64, bool) {
	v, ok := rc.vals[term]
	if !ok {
		return 0, false
	}
	if strings.HasPrefix(v, "#x") {
		n, err := strconv.ParseUint(v[2:], 16, 64)
		return n, err == nil
	}
	if strings.HasPrefix(v, "#b") {
		n, err := strconv.ParseUint(v[2:], 2, 64)
		return n, err == nil
	}
	return 0, false
}

func (rc *replayCtx) collectElems(name string, t types.Type) {
	switch u := t.Underlying().(type) {
	case *types.Slice:
		n, ok := rc.intVal(name + "?len")
		if !ok || n > 1<<16 {
			return
		}
		if !rc.decl[name+"@mem"] {
			return
		}
		for i := uint64(0); i < n; i++ {
			rc.want(fmt.Sprintf("(select %s@mem %s)", name, BVConst(64, i).S))
		}
	case *types.Struct:
		if isOpaqueStructType(t) {
			return
		}
		for i := 0; i < u.NumFields(); i++ {
			rc.collectElems(name+"."+u.Field(i).Name(), u.Field(i).Type())
		}
	case *types.Pointer:
		rc.collectElems(name+"^", u.Elem())
	}
}

// getValues asks the solver for the values of rc.terms in a model of the query.
func (rc *replayCtx) getValues() bool {
	var req []string
	for _, t := range rc.terms {
		// only terms whose head symbol is declared in the query
		sym := t
		if strings.HasPrefix(t, "(select ") {
			sym = strings.Fields(t)[1]
		}
		if !strings.Contains(rc.o.Query, "(declare-const "+sym+" ") {
			continue
		}
		req = append(req, t)
	}
	if len(req) == 0 {
		return true
	}
	tmp, err := os.MkdirTemp("", "walvc-model")
	if err != nil {
		return false
	}
	defer os.RemoveAll(tmp)
	f := filepath.Join(tmp, "q.smt2")
	for start := 0; start < len(req); start += 400 {
		end := start + 400
		if end > len(req) {
			end = len(req)
		}
		q := rc.o.Query + "(get-value (" + strings.Join(req[start:end], " ") + "))\n"
		os.WriteFile(f, []byte(q), 0644)
		out, _ := exec.Command("z3-new", "-T:30", f).CombinedOutput()
		lines := strings.SplitN(string(out), "\n", 2)
		if strings.TrimSpace(lines[0]) != "sat" || len(lines) < 2 {
			out, _ = exec.Command("z3", "-T:30", f).CombinedOutput()
			lines = strings.SplitN(string(out), "\n", 2)
			if strings.TrimSpace(lines[0]) != "sat" || len(lines) < 2 {
				return false
			}
		}
		for _, n := range parseSx(lines[1]) {
			for _, pair := range n.list {
				if len(pair.list) == 2 {
					rc.vals[pair.list[0].String()] = pair.list[1].String()
				}
			}
		}
	}
	return true
}

func (rc *replayCtx) goType(t types.Type) string {
	return types.TypeString(t, func(p *types.Package) string {
		if p == rc.fn.Pkg.Pkg {
			return ""
		}
		rc.imports[p.Path()] = true
		return p.Name()
	})
}

// goValue renders the model value of a parameter as a Go expression.
func (rc *replayCtx) goValue(name string, t types.Type) (string, bool) {
	if w, signed, ok := intInfo(t); ok {
		v, _ := rc.intVal(name)
		if signed {
			return fmt.Sprintf("%s(%d)", rc.goType(t), signExt(v, w)), true
		}
		return fmt.Sprintf("%s(%d)", rc.goType(t), v), true
	}
	if isBoolType(t) {
		return fmt.Sprintf("%v", rc.vals[name] == "true"), true
	}
	if isErrorType(t) {
		return "nil", true
	}
	switch u := t.Underlying().(type) {
	case *types.Slice:
		if rc.vals[name+"?nil"] == "true" {
			return "nil", true
		}
		n, _ := rc.intVal(name + "?len")
		if n > 1<<16 {
			return "", false
		}
		w, _, _ := intInfo(u.Elem())
		var els []string
		for i := uint64(0); i < n; i++ {
			v, _ := rc.intVal(fmt.Sprintf("(select %s@mem %s)", name, BVConst(64, i).S))
			els = append(els, fmt.Sprintf("%d", v&mask(w)))
		}
		return fmt.Sprintf("%s{%s}", rc.goType(t), strings.Join(els, ", ")), true
	case *types.Struct:
		if isOpaqueStructType(t) {
			return rc.goType(t) + "{}", true
		}
		var fs []string
		for i := 0; i < u.NumFields(); i++ {
			f := u.Field(i)
			if !f.Exported() && f.Pkg() != rc.fn.Pkg.Pkg {
				continue
			}
			if _, isI := f.Type().Underlying().(*types.Interface); isI {
				continue
			}
			fv, ok := rc.goValue(name+"."+f.Name(), f.Type())
			if !ok {
				return "", false
			}
			fs = append(fs, fmt.Sprintf("%s: %s", f.Name(), fv))
		}
		return fmt.Sprintf("%s{%s}", rc.goType(t), strings.Join(fs, ", ")), true
	case *types.Pointer:
		if rc.vals[name+"?nil"] == "true" {
			return "nil", true
		}
		ev, ok := rc.goValue(name+"^", u.Elem())
		if !ok {
			return "", false
		}
		return "&" + ev, true
	}
	return "", false
}

func (rc *replayCtx) render(prop string) (string, bool) {
	fn := rc.fn
	var b strings.Builder
	var args []string
	var body strings.Builder
	recvName := ""
	for i, prm := range fn.Params {
		v, ok := rc.goValue(sanitize(prm.Name()), prm.Type())
		if !ok {
			return "", false
		}
		vn := "arg_" + prm.Name()
		fmt.Fprintf(&body, "\t%s := %s\n", vn, v)
		if i == 0 && fn.Signature.Recv() != nil {
			recvName = vn
			continue
		}
		args = append(args, vn)
	}
	call := fn.Name() + "(" + strings.Join(args, ", ") + ")"
	if recvName != "" {
		call = recvName + "." + call
	}
	if fn.Signature.Variadic() {
		return "", false
	}
	nres := fn.Signature.Results().Len()
	var lhs []string
	for i := 0; i < nres; i++ {
		lhs = append(lhs, fmt.Sprintf("r%d", i))
	}
	assign := call
	if nres > 0 {
		assign = strings.Join(lhs, ", ") + " := " + call
	}
	check := ""
	if rc.o.Kind == "ensures" {
		cl := rc.findEnsures()
		if cl == nil {
			return "", false
		}
		g := &goGen{rc: rc, pre: map[string]string{}}
		expr, ok := g.gen(cl.E, false)
		if !ok {
			return "", false
		}
		body.WriteString(g.preCode.String())
		uses := ""
		for _, l := range lhs {
			uses += "\t_ = " + l + "\n"
		}
		check = fmt.Sprintf("%s\tif !(%s) {\n\t\tt.Fatalf(\"REPLAY-CONFIRMED %s: postcondition %%s of %s is false on the verifier's counterexample\", %q)\n\t}\n\tt.Logf(\"REPLAY-NOT-REPRODUCED: postcondition holds on this input\")\n",
			uses, expr, prop, fnKey(fn), "["+strings.Join(cl.Labels, ",")+"] "+cl.Src)
		for k := range g.imports {
			rc.imports[k] = true
		}
	} else {
		uses := ""
		for _, l := range lhs {
			uses += "\t_ = " + l + "\n"
		}
		check = uses + "\tt.Logf(\"REPLAY-NOT-REPRODUCED: no panic on this input\")\n"
	}
	fmt.Fprintf(&b, "package %s\n\n// Generated by walvc from the solver model of the failed obligation\n//   %s\n// It runs the real code on the counterexample.\n\nimport (\n", fn.Pkg.Pkg.Name(), rc.o.Name)
	var imps []string
	for k := range rc.imports {
		imps = append(imps, k)
	}
	sort.Strings(imps)
	for _, k := range imps {
		fmt.Fprintf(&b, "\t%q\n", k)
	}
	b.WriteString(")\n\n")
	b.WriteString(goHelpers)
	fmt.Fprintf(&b, "\nfunc TestReplayCounterexample(t *testing.T) {\n\tdefer func() {\n\t\tif r := recover(); r != nil {\n\t\t\tt.Fatalf(\"REPLAY-CONFIRMED %s: %s panics on the verifier's counterexample: %%v\", r)\n\t\t}\n\t}()\n", prop, fnKey(fn))
	b.WriteString(body.String())
	fmt.Fprintf(&b, "\t%s\n", assign)
	b.WriteString(check)
	b.WriteString("}\n")
	return b.String(), true
}

func (rc *replayCtx) findEnsures() *Clause {
	c := rc.o.Exec.contract
	if c == nil {
		return nil
	}
	// obligation names look like unit/ensures[label](#k)(/piece)
	name := strings.TrimPrefix(rc.o.Name, rc.o.Unit+"/")
	for _, en := range c.Ensures {
		lbl := strings.Join(en.Labels, ",")
		if lbl != "" && strings.HasPrefix(name, "ensures["+lbl+"]") {
			return en
		}
	}
	return nil
}

const goHelpers = `
func rpLE(b []byte, off int, n int) uint64 {
	var v uint64
	for i := 0; i < n; i++ {
		v |= uint64(b[off+i]) << (8 * uint(i))
	}
	return v
}
func rpZero(b []byte, lo, hi int) bool {
	for i := lo; i < hi; i++ {
		if b[i] != 0 {
			return false
		}
	}
	return true
}
func rpEq(a []byte, alo int, b []byte, blo int, n int) bool {
	for i := 0; i < n; i++ {
		if a[alo+i] != b[blo+i] {
			return false
		}
	}
	return true
}
func rpImp(a, b bool) bool { return !a || b }
func rpIte[T any](c bool, a, b T) T {
	if c {
		return a
	}
	return b
}
`

// goGen translates contract expressions to Go source.
type goGen struct {
	rc      *replayCtx
	pre     map[string]string
	preCode strings.Builder
	imports map[string]bool
	binds   map[string]string
}

func (g *goGen) gen(x Expr, old bool) (string, bool) {
	if g.imports == nil {
		g.imports = map[string]bool{}
	}
	fn := g.rc.fn
	switch n := x.(type) {
	case *EInt:
		return fmt.Sprintf("%d", n.V), true
	case *EBool:
		return fmt.Sprintf("%v", n.V), true
	case *ENil:
		return "nil", true
	case *EIdent:
		if v, ok := g.binds[n.Name]; ok {
			return v, true
		}
		if n.Name == "result" || n.Name == "result0" {
			return "r0", true
		}
		if strings.HasPrefix(n.Name, "result") {
			return "r" + n.Name[6:], true
		}
		for i := 0; i < fn.Signature.Results().Len(); i++ {
			if fn.Signature.Results().At(i).Name() == n.Name {
				return fmt.Sprintf("r%d", i), true
			}
		}
		for _, p := range fn.Params {
			if p.Name() == n.Name {
				if old {
					return g.oldCopy(p), true
				}
				return "arg_" + p.Name(), true
			}
		}
		// package-level constant or variable
		if m, ok := fn.Pkg.Members[n.Name]; ok {
			switch m.(type) {
			case *ssa.NamedConst, *ssa.Global:
				return n.Name, true
			}
		}
		return "", false
	case *EOld:
		return g.gen(n.X, true)
	case *ESel:
		if id, ok := n.X.(*EIdent); ok {
			isVar := false
			for _, p := range fn.Params {
				if p.Name() == id.Name {
					isVar = true
				}
			}
			if _, b := g.binds[id.Name]; b {
				isVar = true
			}
			if !isVar && !strings.HasPrefix(id.Name, "result") {
				for _, imp := range fn.Pkg.Pkg.Imports() {
					if imp.Name() == id.Name {
						g.imports[imp.Path()] = true
						return id.Name + "." + n.Name, true
					}
				}
			}
		}
		b, ok := g.gen(n.X, old)
		if !ok {
			return "", false
		}
		return b + "." + n.Name, true
	case *EIndex:
		b, ok1 := g.gen(n.X, old)
		i, ok2 := g.gen(n.I, old)
		return fmt.Sprintf("%s[%s]", b, i), ok1 && ok2
	case *EUn:
		v, ok := g.gen(n.X, old)
		if !ok {
			return "", false
		}
		switch n.Op {
		case "()":
			return "(" + v + ")", true
		case "!":
			return "!(" + v + ")", true
		case "-":
			return "-(" + v + ")", true
		case "^":
			return "^(" + v + ")", true
		}
	case *EBin:
		l, ok1 := g.gen(n.L, old)
		r, ok2 := g.gen(n.R, old)
		if !ok1 || !ok2 {
			return "", false
		}
		switch n.Op {
		case "==>":
			return fmt.Sprintf("rpImp(%s, %s)", l, r), true
		case "<==>":
			return fmt.Sprintf("((%s) == (%s))", l, r), true
		}
		return fmt.Sprintf("(%s %s %s)", l, n.Op, r), true
	case *ECall:
		var as []string
		for _, a := range n.Args {
			v, ok := g.gen(a, old)
			if !ok {
				return "", false
			}
			as = append(as, v)
		}
		switch n.Fn {
		case "len", "cap", "int", "int64", "uint64", "uint32", "uint8", "byte", "uint16", "int32", "uint":
			return fmt.Sprintf("%s(%s)", n.Fn, strings.Join(as, ", ")), true
		case "LE16":
			return fmt.Sprintf("uint16(rpLE(%s, int(%s), 2))", as[0], as[1]), true
		case "LE32":
			return fmt.Sprintf("uint32(rpLE(%s, int(%s), 4))", as[0], as[1]), true
		case "LE64":
			return fmt.Sprintf("rpLE(%s, int(%s), 8)", as[0], as[1]), true
		case "zero":
			return fmt.Sprintf("rpZero(%s, int(%s), int(%s))", as[0], as[1], as[2]), true
		case "eqbytes":
			return fmt.Sprintf("rpEq(%s, int(%s), %s, int(%s), int(%s))", as[0], as[1], as[2], as[3], as[4]), true
		case "ite":
			return fmt.Sprintf("rpIte(%s, %s, %s)", as[0], as[1], as[2]), true
		case "errors.Is":
			g.imports["errors"] = true
			return fmt.Sprintf("errors.Is(%s, %s)", as[0], as[1]), true
		}
		// predicates: expand
		pk := fn.Pkg.Pkg.Name() + "." + n.Fn
		if pr, ok := g.rc.p.contracts.Preds[pk]; ok && len(pr.Params) == len(as) {
			saved := g.binds
			nb := map[string]string{}
			for k, v := range saved {
				nb[k] = v
			}
			for i, pn := range pr.Params {
				nb[pn] = "(" + as[i] + ")"
			}
			g.binds = nb
			v, ok := g.gen(pr.Body, old)
			g.binds = saved
			return "(" + v + ")", ok
		}
		return "", false
	}
	return "", false
}

// oldCopy snapshots a parameter before the call (slices are copied).
func (g *goGen) oldCopy(p *ssa.Parameter) string {
	name := "old_" + p.Name()
	if _, done := g.pre[name]; done {
		return name
	}
	g.pre[name] = "1"
	if _, ok := p.Type().Underlying().(*types.Slice); ok {
		fmt.Fprintf(&g.preCode, "\t%s := append(%s(nil), arg_%s...)\n\t_ = %s\n", name, g.rc.goType(p.Type()), p.Name(), name)
	} else if pt, ok := p.Type().Underlying().(*types.Pointer); ok {
		_ = pt
		fmt.Fprintf(&g.preCode, "\tvar %s = arg_%s\n\tif arg_%s != nil {\n\t\tcp := *arg_%s\n\t\t%s = &cp\n\t}\n\t_ = %s\n", name, p.Name(), p.Name(), p.Name(), name, name)
	} else {
		fmt.Fprintf(&g.preCode, "\t%s := arg_%s\n\t_ = %s\n", name, p.Name(), name)
	}
	return name
}

// metricReplay: a metric name not declared in MetricDefinitions makes the
// bundled AtomicCollector panic.
func (p *Prog) metricReplay(o *Obl, dir, base string) (string, bool) {
	var pkgDir, pkgName string
	for _, ap := range p.astPkgs {
		if ap.PkgPath == o.MetricPkg && len(ap.GoFiles) > 0 {
			pkgDir = filepath.Dir(ap.GoFiles[0])
			pkgName = ap.Name
		}
	}
	if pkgDir == "" || o.MetricName == "<non-constant>" {
		return "", false
	}
	call := fmt.Sprintf("c.IncrementCounter(%q, 1)", o.MetricName)
	if o.MetricKind == "SetGauge" {
		call = fmt.Sprintf("c.SetGauge(%q, 1)", o.MetricName)
	}
	src := fmt.Sprintf(`package %s

// Generated by walvc: the emitting call site
//   %s
// passes a metric name that is not declared in MetricDefinitions.

import (
	"testing"

	"github.com/hashicorp/raft-wal/metrics"
)

func TestReplayCounterexample(t *testing.T) {
	defer func() {
		if r := recover(); r != nil {
			t.Fatalf("REPLAY-CONFIRMED C20: the bundled AtomicCollector panics on the emitted name: %%v", r)
		}
	}()
	c := metrics.NewAtomicCollector(MetricDefinitions)
	%s
	t.Logf("REPLAY-NOT-REPRODUCED")
}
`, pkgName, o.Name, call)
	testFile := filepath.Join(dir, base+"_test.go")
	os.WriteFile(testFile, []byte(src), 0644)
	out, confirmed := runOverlayTest(pkgDir, testFile, "TestReplayCounterexample")
	os.WriteFile(filepath.Join(dir, base+".out.txt"), []byte(out), 0644)
	if !confirmed {
		return "", false
	}
	return testFile, true
}
