package main

// Replay of solver counterexamples against the real code.

func (p *Prog) tryConcreteReplay(o *Obl, prop, dir, base string) (string, bool) { return "", false }
