package main

import (
	"fmt"
	"go/token"
	"go/types"
	"strings"

	"golang.org/x/tools/go/ssa"
)

func i64(v int64) T { return BVConst(64, uint64(v)) }

// asInt coerces a value to VInt (for index operands etc).
func (e *Exec) asInt(v Value) VInt {
	switch x := v.(type) {
	case VInt:
		return x
	case VOpaque:
		return VInt{T: x.T}
	}
	e.unsupported(fmt.Sprintf("expected integer value, got %T", v))
	return VInt{T: BVConst(64, 0), Signed: true}
}

// toIndex converts an integer value to a 64-bit index term plus the condition
// that it is a valid non-negative int.
func toIndex(v VInt) (T, T) {
	w := v.T.Sort.W
	if v.Signed {
		t := SignExt(v.T, 64)
		return t, BVCmp("bvsle", i64(0), t)
	}
	t := ZeroExt(v.T, 64)
	if w == 64 {
		// uint64 index must fit in int
		return t, BVCmp("bvsle", i64(0), t)
	}
	return t, True
}

func (e *Exec) execSimple(st *State, fr *Frame, instr ssa.Instruction) {
	switch in := instr.(type) {
	case *ssa.Alloc:
		e.nobj++
		name := fmt.Sprintf("%s#%d", in.Name(), e.nobj)
		if in.Comment != "" {
			name = fmt.Sprintf("%s#%d", in.Comment, e.nobj)
		}
		elem := in.Type().(*types.Pointer).Elem()
		if et, ok := isSortedMapType(elem); ok {
			// &immutable.SortedMap[K,V]{}: the empty map
			fr.Vals[in] = e.smEmpty(st, et)
			return
		}
		obj := &Object{ID: e.nobj, Name: name, Typ: elem}
		zv := e.zeroValue(elem)
		if va, ok := zv.(VArr); ok {
			e.freshRegs[va.Reg] = true
			e.allRegs[va.Reg.Name] = va.Reg
		}
		st.Objs[obj] = zv
		fr.Vals[in] = VPtr{Nil: False, Loc: &Loc{Obj: obj}, Elem: elem}
	case *ssa.BinOp:
		fr.Vals[in] = e.binop(st, in, in.Op, e.val(st, fr, in.X), e.val(st, fr, in.Y), in.X.Type())
	case *ssa.UnOp:
		fr.Vals[in] = e.unop(st, fr, in)
	case *ssa.Convert:
		fr.Vals[in] = e.convert(st, e.val(st, fr, in.X), in.X.Type(), in.Type())
	case *ssa.ChangeType:
		fr.Vals[in] = e.retype(e.val(st, fr, in.X), in.Type())
	case *ssa.ChangeInterface:
		v := e.val(st, fr, in.X)
		if vi, ok := v.(VIface); ok {
			vi.Typ = in.Type()
			v = vi
		}
		fr.Vals[in] = v
	case *ssa.MakeInterface:
		fr.Vals[in] = e.makeInterface(st, e.val(st, fr, in.X), in.X.Type(), in.Type())
	case *ssa.TypeAssert:
		fr.Vals[in] = e.typeAssert(st, in, e.val(st, fr, in.X))
	case *ssa.Extract:
		t := e.val(st, fr, in.Tuple)
		vt, ok := t.(VTuple)
		if !ok || in.Index >= len(vt.E) {
			e.unsupported(fmt.Sprintf("extract from non-tuple %T", t))
			fr.Vals[in] = e.materialize(e.freshName("extract"), in.Type())
			return
		}
		fr.Vals[in] = vt.E[in.Index]
	case *ssa.Field:
		fr.Vals[in] = e.fieldOf(e.val(st, fr, in.X), in.Field)
	case *ssa.FieldAddr:
		p, ok := e.val(st, fr, in.X).(VPtr)
		if !ok {
			e.unsupported("FieldAddr on non-pointer")
			return
		}
		e.safe(st, in, "nil", Not(p.Nil))
		ft := in.Type().(*types.Pointer).Elem()
		if p.Loc == nil {
			st.Dead = true
			return
		}
		fr.Vals[in] = VPtr{Nil: False, Loc: p.Loc.field(in.Field), Elem: ft}
	case *ssa.IndexAddr:
		e.indexAddr(st, fr, in)
	case *ssa.Index:
		// index of array value or string
		e.unsupported("Index on array/string value")
		fr.Vals[in] = e.materialize(e.freshName("index"), in.Type())
	case *ssa.Slice:
		e.sliceOp(st, fr, in)
	case *ssa.MakeSlice:
		e.makeSlice(st, fr, in)
	case *ssa.Store:
		p, ok := e.val(st, fr, in.Addr).(VPtr)
		if !ok {
			e.unsupported("Store through non-pointer")
			return
		}
		e.safe(st, in, "nil", Not(p.Nil))
		if p.Loc == nil {
			st.Dead = true
			return
		}
		e.storeLoc(st, p.Loc, e.val(st, fr, in.Val))
	case *ssa.MakeClosure:
		var bs []Value
		for _, b := range in.Bindings {
			bs = append(bs, e.val(st, fr, b))
		}
		fr.Vals[in] = VFunc{Fn: in.Fn.(*ssa.Function), Bindings: bs, Nil: False, Typ: in.Type()}
	case *ssa.MakeMap:
		e.nobj++
		obj := &Object{ID: e.nobj, Name: fmt.Sprintf("map#%d", e.nobj), Typ: in.Type()}
		e.mapInit(st, obj)
		fr.Vals[in] = VMap{Obj: obj, Nil: False}
	case *ssa.MakeChan:
		e.nobj++
		obj := &Object{ID: e.nobj, Name: fmt.Sprintf("chan#%d", e.nobj), Typ: in.Type()}
		fr.Vals[in] = VChan{Obj: obj, Nil: False}
		st.Ghost["closed:"+obj.Name] = VBool{False} // a new channel is open
	case *ssa.MapUpdate:
		e.mapUpdate(st, fr, in)
	case *ssa.Lookup:
		e.mapLookup(st, fr, in)
	case *ssa.Range:
		e.rangeInit(st, fr, in)
	case *ssa.Next:
		e.rangeNext(st, fr, in)
	case *ssa.Send:
		st.Effects = append(st.Effects, "blocking-send")
		e.checkChanInv(st, fr, in, in.Chan, e.val(st, fr, in.X))
	case *ssa.Select:
		e.selectOp(st, fr, in)
	default:
		e.unsupported(fmt.Sprintf("instruction %T", instr))
		if v, ok := instr.(ssa.Value); ok {
			fr.Vals[v] = e.materialize(e.freshName("unk"), v.Type())
		}
	}
}

func (e *Exec) retype(v Value, t types.Type) Value {
	switch x := v.(type) {
	case VStruct:
		x.Typ = t
		return x
	case VInt:
		_, signed, ok := intInfo(t)
		if ok {
			x.Signed = signed
		}
		return x
	case VFunc:
		x.Typ = t
		return x
	}
	return v
}

func (e *Exec) binop(st *State, in ssa.Instruction, op token.Token, x, y Value, xt types.Type) Value {
	switch a := x.(type) {
	case VInt:
		b, ok := y.(VInt)
		if !ok {
			e.unsupported(fmt.Sprintf("binop int with %T", y))
			return VInt{T: e.fresh("binop", a.T.Sort), Signed: a.Signed}
		}
		s := a.Signed
		mk := func(t T) Value { return VInt{T: t, Signed: s} }
		if op == token.SHL || op == token.SHR {
			w := a.T.Sort.W
			cnt := b.T
			var big T = False
			if cnt.Sort.W > w {
				big = BVCmp("bvuge", cnt, BVConst(cnt.Sort.W, uint64(w)))
				cnt = Extract(cnt, w-1, 0)
			} else {
				cnt = ZeroExt(cnt, w)
				big = BVCmp("bvuge", cnt, BVConst(w, uint64(w)))
			}
			if b.Signed && in != nil {
				e.safe(st, in, "shift", BVCmp("bvsge", b.T, BVConst(b.T.Sort.W, 0)))
			}
			if op == token.SHL {
				return mk(Ite(big, BVConst(w, 0), BVBin("bvshl", a.T, cnt)))
			}
			if s {
				return mk(app(a.T.Sort, "bvashr", a.T, Ite(big, BVConst(w, uint64(w-1)), cnt)))
			}
			return mk(Ite(big, BVConst(w, 0), BVBin("bvlshr", a.T, cnt)))
		}
		if !a.T.Sort.Eq(b.T.Sort) {
			e.unsupported("binop operand width mismatch")
			return mk(e.fresh("binop", a.T.Sort))
		}
		switch op {
		case token.ADD:
			return mk(BVBin("bvadd", a.T, b.T))
		case token.SUB:
			return mk(BVBin("bvsub", a.T, b.T))
		case token.MUL:
			return mk(BVBin("bvmul", a.T, b.T))
		case token.QUO:
			if in != nil {
				e.safe(st, in, "div", Ne(b.T, BVConst(b.T.Sort.W, 0)))
			}
			if s {
				return mk(BVBin("bvsdiv", a.T, b.T))
			}
			return mk(BVBin("bvudiv", a.T, b.T))
		case token.REM:
			if in != nil {
				e.safe(st, in, "div", Ne(b.T, BVConst(b.T.Sort.W, 0)))
			}
			if s {
				return mk(BVBin("bvsrem", a.T, b.T))
			}
			return mk(BVBin("bvurem", a.T, b.T))
		case token.AND:
			return mk(BVBin("bvand", a.T, b.T))
		case token.OR:
			return mk(BVBin("bvor", a.T, b.T))
		case token.XOR:
			return mk(BVBin("bvxor", a.T, b.T))
		case token.AND_NOT:
			return mk(BVBin("bvand", a.T, BVNot(b.T)))
		case token.EQL:
			return VBool{Eq(a.T, b.T)}
		case token.NEQ:
			return VBool{Ne(a.T, b.T)}
		case token.LSS:
			return VBool{BVCmp(pick(s, "bvslt", "bvult"), a.T, b.T)}
		case token.LEQ:
			return VBool{BVCmp(pick(s, "bvsle", "bvule"), a.T, b.T)}
		case token.GTR:
			return VBool{BVCmp(pick(s, "bvsgt", "bvugt"), a.T, b.T)}
		case token.GEQ:
			return VBool{BVCmp(pick(s, "bvsge", "bvuge"), a.T, b.T)}
		}
	case VBool:
		b := y.(VBool)
		switch op {
		case token.EQL:
			return VBool{Eq(a.T, b.T)}
		case token.NEQ:
			return VBool{Ne(a.T, b.T)}
		case token.AND, token.LAND:
			return VBool{And(a.T, b.T)}
		case token.OR, token.LOR:
			return VBool{Or(a.T, b.T)}
		}
	case VErr:
		bt := e.errTerm(y)
		switch op {
		case token.EQL:
			return VBool{Eq(a.T, bt)}
		case token.NEQ:
			return VBool{Ne(a.T, bt)}
		}
	case VStr:
		b, ok := y.(VStr)
		if ok {
			switch op {
			case token.EQL:
				return VBool{Eq(a.T, b.T)}
			case token.NEQ:
				return VBool{Ne(a.T, b.T)}
			case token.ADD:
				if a.Lit != nil && b.Lit != nil {
					s := *a.Lit + *b.Lit
					return VStr{T: e.strConst(s), Lit: &s}
				}
				return VStr{T: e.fresh("strcat", BV32)}
			}
		}
	case VOpaque:
		if b, ok := y.(VOpaque); ok {
			switch op {
			case token.EQL:
				return VBool{Eq(a.T, b.T)}
			case token.NEQ:
				return VBool{Ne(a.T, b.T)}
			}
			// float arithmetic etc: opaque
			if op == token.LSS || op == token.LEQ || op == token.GTR || op == token.GEQ {
				return VBool{e.fresh("fcmp", BoolSort)}
			}
			return VOpaque{T: e.fresh("fop", BV64), Typ: a.Typ}
		}
	case VPtr, VSlice, VIface, VFunc, VMap, VChan:
		eq := e.refEq(x, y)
		switch op {
		case token.EQL:
			return VBool{eq}
		case token.NEQ:
			return VBool{Not(eq)}
		}
	}
	e.unsupported(fmt.Sprintf("binop %s on %T,%T", op, x, y))
	if op == token.EQL || op == token.NEQ || op == token.LSS || op == token.LEQ || op == token.GTR || op == token.GEQ {
		return VBool{e.fresh("cmp", BoolSort)}
	}
	return x
}

func pick(c bool, a, b string) string {
	if c {
		return a
	}
	return b
}

func (e *Exec) errTerm(v Value) T {
	switch x := v.(type) {
	case VErr:
		return x.T
	case VIface:
		if x.Nil.Const && x.Nil.V == 1 {
			return BVConst(32, 0)
		}
	}
	e.unsupported(fmt.Sprintf("error comparison with %T", v))
	return e.fresh("err", BV32)
}

func nilOf(v Value) (T, bool) {
	switch x := v.(type) {
	case VSMap:
		return x.Nil, true
	case VPtr:
		return x.Nil, true
	case VSlice:
		return x.Nil, true
	case VIface:
		return x.Nil, true
	case VFunc:
		return x.Nil, true
	case VMap:
		return x.Nil, true
	case VChan:
		return x.Nil, true
	case VErr:
		return Eq(x.T, BVConst(32, 0)), true
	}
	return False, false
}

// refEq compares reference-like values; only comparisons against nil and
// between pointers are supported precisely.
func (e *Exec) refEq(x, y Value) T {
	nx, _ := nilOf(x)
	ny, _ := nilOf(y)
	if ny.Const && ny.V == 1 {
		return nx
	}
	if nx.Const && nx.V == 1 {
		return ny
	}
	// An object first reached through a havocked pointer or interface (callee
	// frame, loop cut, callee result) may or may not be one of the objects
	// already known: identity with it is decided by a symbolic address, never
	// assumed false. Distinct objects of the unit's pre-state are separate.
	havocked := func(o *Object) bool {
		return o != nil && (strings.Contains(o.Name, "~c") || strings.Contains(o.Name, "~L") || strings.Contains(o.Name, "!c"))
	}
	addrOf := func(o *Object) T {
		if a, ok := e.objAddr[o]; ok {
			return a
		}
		a := e.fresh("addr", BV64)
		e.objAddr[o] = a
		return a
	}
	px, okx := x.(VPtr)
	py, oky := y.(VPtr)
	if okx && oky {
		same := False
		if px.Loc != nil && py.Loc != nil && px.Loc.String() == py.Loc.String() {
			same = True
		} else if px.Loc != nil && py.Loc != nil && px.Loc.Obj != nil && py.Loc.Obj != nil && len(px.Loc.Path) == 0 && len(py.Loc.Path) == 0 {
			ax, hx := e.objAddr[px.Loc.Obj]
			ay, hy := e.objAddr[py.Loc.Obj]
			if hx && hy {
				same = Eq(ax, ay)
			} else if havocked(px.Loc.Obj) || havocked(py.Loc.Obj) {
				same = Eq(addrOf(px.Loc.Obj), addrOf(py.Loc.Obj))
			}
		} else if px.Loc != nil && py.Loc != nil && px.Loc.Reg != nil && px.Loc.Reg == py.Loc.Reg && strings.HasPrefix(px.Loc.Reg.Name, "heap:") && len(px.Loc.Path) == 0 && len(py.Loc.Path) == 0 {
			same = Eq(px.Loc.Idx, py.Loc.Idx)
		} else if px.Loc != nil && py.Loc != nil && (havocked(px.Loc.Obj) || havocked(py.Loc.Obj)) {
			same = e.fresh("ptreq", BoolSort)
		}
		return Or(And(nx, ny), And(Not(nx), Not(ny), same))
	}
	ix, okx := x.(VIface)
	iy, oky := y.(VIface)
	if okx && oky {
		if ix.Obj != nil && iy.Obj != nil {
			if ix.Obj == iy.Obj {
				return Eq(nx, ny)
			}
			if havocked(ix.Obj) || havocked(iy.Obj) {
				return Or(And(nx, ny), And(Not(nx), Not(ny), Eq(addrOf(ix.Obj), addrOf(iy.Obj))))
			}
			return And(nx, ny)
		}
		if ix.Dyn != nil && iy.Dyn != nil {
			if !types.Identical(ix.Dyn, iy.Dyn) {
				return And(nx, ny)
			}
			if px, ok1 := ix.Val.(VPtr); ok1 {
				if py, ok2 := iy.Val.(VPtr); ok2 {
					return e.refEq(px, py)
				}
			}
		}
		if (ix.Obj != nil && iy.Dyn != nil) || (ix.Dyn != nil && iy.Obj != nil) {
			// abstract pre-state object vs. value constructed here: distinct unless both nil
			return And(nx, ny)
		}
	}
	e.unsupported(fmt.Sprintf("reference comparison %T == %T", x, y))
	return e.fresh("refeq", BoolSort)
}

func (e *Exec) unop(st *State, fr *Frame, in *ssa.UnOp) Value {
	x := e.val(st, fr, in.X)
	switch in.Op {
	case token.MUL: // load
		p, ok := x.(VPtr)
		if !ok {
			e.unsupported("load through non-pointer")
			return e.materialize(e.freshName("load"), in.Type())
		}
		e.safe(st, in, "nil", Not(p.Nil))
		if p.Loc == nil {
			st.Dead = true
			return e.zeroValue(in.Type())
		}
		v := e.load(st, p.Loc, in.Type())
		if g, ok := in.X.(*ssa.Global); ok {
			v = e.globalLoad(st, g, v, in.Type())
		}
		return v
	case token.NOT:
		return VBool{Not(x.(VBool).T)}
	case token.SUB:
		if a, ok := x.(VInt); ok {
			return VInt{T: BVNeg(a.T), Signed: a.Signed}
		}
	case token.XOR:
		if a, ok := x.(VInt); ok {
			return VInt{T: BVNot(a.T), Signed: a.Signed}
		}
	case token.ARROW:
		// channel receive: result is havoc; recorded as a blocking effect
		st.Effects = append(st.Effects, "blocking-recv")
		if in.CommaOk {
			msg := e.materialize(e.freshName("recv"), in.Type().(*types.Tuple).At(0).Type())
			ok := e.fresh("recvok", BoolSort)
			e.assumeChanInv(st, fr, in.X, msg, ok)
			return VTuple{E: []Value{msg, VBool{ok}}}
		}
		msg := e.materialize(e.freshName("recv"), in.Type())
		e.assumeChanInv(st, fr, in.X, msg, True)
		return msg
	}
	e.unsupported(fmt.Sprintf("unop %s on %T", in.Op, x))
	return x
}

// globalLoad gives package-level variables their modelled values: error
// sentinels are distinct constants.
func (e *Exec) globalLoad(st *State, g *ssa.Global, v Value, t types.Type) Value {
	if isErrorType(t) {
		return VErr{e.sentinel(g.Pkg.Pkg.Path() + "." + g.Name())}
	}
	return v
}

// sentinel returns the constant code of a package-level error variable.
// Aliases (wal.ErrNotFound = types.ErrNotFound = raft.ErrLogNotFound) share a code.
var sentinelAlias = map[string]string{
	"github.com/hashicorp/raft-wal.ErrNotFound":       "github.com/hashicorp/raft.ErrLogNotFound",
	"github.com/hashicorp/raft-wal.ErrCorrupt":        "github.com/hashicorp/raft-wal/types.ErrCorrupt",
	"github.com/hashicorp/raft-wal.ErrSealed":         "github.com/hashicorp/raft-wal/types.ErrSealed",
	"github.com/hashicorp/raft-wal.ErrClosed":         "github.com/hashicorp/raft-wal/types.ErrClosed",
	"github.com/hashicorp/raft-wal/types.ErrNotFound": "github.com/hashicorp/raft.ErrLogNotFound",
}

const maxSentinel = 1000

func (e *Exec) sentinel(name string) T {
	if a, ok := sentinelAlias[name]; ok {
		name = a
	}
	id, ok := e.prog.errIDs[name]
	if !ok {
		id = len(e.prog.errIDs) + 1
		e.prog.errIDs[name] = id
	}
	return BVConst(32, uint64(id))
}

// freshErr returns a new non-nil, non-sentinel error; wraps records %w.
func (e *Exec) freshErr(st *State, tag string, wraps *T) VErr {
	t := e.fresh("err_"+tag, BV32)
	st.assume(Ne(t, BVConst(32, 0)))
	st.assume(BVCmp("bvugt", t, BVConst(32, maxSentinel)))
	if wraps != nil {
		e.specFns["unwrap"] = true
		st.assume(Eq(UF("unwrap", BV32, t), *wraps))
	} else {
		e.specFns["unwrap"] = true
		st.assume(Eq(UF("unwrap", BV32, t), BVConst(32, 0)))
	}
	return VErr{t}
}

// errIs models errors.Is(err, target) with unwrap depth 2.
func (e *Exec) errIs(err, target T) T {
	e.specFns["unwrap"] = true
	u1 := UF("unwrap", BV32, err)
	u2 := UF("unwrap", BV32, u1)
	nz := Ne(err, BVConst(32, 0))
	return And(nz, Or(Eq(err, target), And(Ne(u1, BVConst(32, 0)), Or(Eq(u1, target), And(Ne(u2, BVConst(32, 0)), Eq(u2, target))))))
}

func (e *Exec) convert(st *State, v Value, from, to types.Type) Value {
	if wt, st2, ok := intInfo(to); ok {
		if a, ok := v.(VInt); ok {
			var t T
			if a.Signed {
				t = SignExt(a.T, wt)
			} else {
				t = ZeroExt(a.T, wt)
			}
			return VInt{T: t, Signed: st2}
		}
		if _, ok := v.(VOpaque); ok { // float -> int
			return VInt{T: e.fresh("f2i", BVSort(wt)), Signed: st2}
		}
	}
	if isFloatType(to) {
		return VOpaque{T: e.fresh("i2f", BV64), Typ: to}
	}
	if isStringType(to) {
		if s, ok := v.(VStr); ok {
			return s
		}
		return VStr{T: e.fresh("str", BV32)}
	}
	if _, ok := to.Underlying().(*types.Slice); ok {
		if s, ok := v.(VSlice); ok {
			return s
		}
		if s, ok := v.(VStr); ok {
			// []byte(string): fresh region with symbolic contents
			name := e.freshName("bytesOf")
			if s.Lit != nil {
				return e.bytesOfLiteral(st, *s.Lit)
			}
			return e.materialize(name, to)
		}
	}
	e.unsupported(fmt.Sprintf("convert %s -> %s (%T)", from, to, v))
	return e.materialize(e.freshName("conv"), to)
}

func (e *Exec) bytesOfLiteral(st *State, s string) Value {
	e.nobj++
	reg := &Region{ID: e.nobj, Name: fmt.Sprintf("lit#%d", e.nobj), Elem: types.Typ[types.Uint8]}
	arr := T{S: fmt.Sprintf("((as const %s) #x00)", ByteArr.String()), Sort: ByteArr}
	for i := 0; i < len(s); i++ {
		arr = Store(arr, i64(int64(i)), BVConst(8, uint64(s[i])))
	}
	st.Mem[reg] = map[string]T{"": arr}
	e.allRegs[reg.Name] = reg
	e.litOfRegion[reg] = s
	e.freshRegs[reg] = true
	n := i64(int64(len(s)))
	return VSlice{Nil: False, Reg: reg, Base: i64(0), Len: n, Cap: n, Elem: types.Typ[types.Uint8]}
}

func (e *Exec) makeInterface(st *State, v Value, from, to types.Type) Value {
	if isErrorType(to) {
		if ve, ok := v.(VErr); ok {
			return ve
		}
		// a concrete error type wrapped as error: fresh non-nil error,
		// tagged by its dynamic type so that type switches can be modelled
		er := e.freshErr(st, "dyn", nil)
		e.errDyn[er.T.S] = from
		return er
	}
	return VIface{Nil: False, Dyn: from, Val: v, Typ: to}
}

func (e *Exec) typeAssert(st *State, in *ssa.TypeAssert, v Value) Value {
	at := in.AssertedType
	mkRes := func(ok T, val Value) Value {
		if in.CommaOk {
			return VTuple{E: []Value{val, VBool{ok}}}
		}
		e.safe(st, in, "typeassert", ok)
		return val
	}
	switch x := v.(type) {
	case VIface:
		if x.Dyn != nil {
			if _, isI := at.Underlying().(*types.Interface); isI {
				if types.Implements(x.Dyn, at.Underlying().(*types.Interface)) {
					nv := x
					nv.Typ = at
					return mkRes(Not(x.Nil), nv)
				}
				return mkRes(False, e.zeroValue(at))
			}
			if types.Identical(x.Dyn, at) {
				return mkRes(Not(x.Nil), x.Val)
			}
			return mkRes(False, e.zeroValue(at))
		}
		if x.Nil.Const && x.Nil.V == 1 {
			return mkRes(False, e.zeroValue(at))
		}
		// unknown dynamic type
		ok := e.fresh("assertok", BoolSort)
		if _, isI := at.Underlying().(*types.Interface); isI {
			nv := x
			nv.Typ = at
			return mkRes(And(Not(x.Nil), ok), nv)
		}
		return mkRes(And(Not(x.Nil), ok), e.materialize(e.freshName("asserted"), at))
	case VErr:
		ok := e.fresh("assertok", BoolSort)
		if dt, have := e.errDyn[x.T.S]; have {
			if types.Identical(dt, at) {
				ok = True
			} else {
				ok = False
			}
		}
		return mkRes(And(Ne(x.T, BVConst(32, 0)), ok), e.materialize(e.freshName("asserted"), at))
	}
	e.unsupported(fmt.Sprintf("type assertion on %T", v))
	return mkRes(e.fresh("assertok", BoolSort), e.materialize(e.freshName("asserted"), at))
}

func (e *Exec) indexAddr(st *State, fr *Frame, in *ssa.IndexAddr) {
	x := e.val(st, fr, in.X)
	iv := e.asInt(e.val(st, fr, in.Index))
	idx, nonneg := toIndex(iv)
	et := in.Type().(*types.Pointer).Elem()
	switch s := x.(type) {
	case VSlice:
		e.safe(st, in, "index", And(nonneg, BVCmp("bvslt", idx, s.Len)))
		if s.Reg == nil {
			st.Dead = true
			return
		}
		fr.Vals[in] = VPtr{Nil: False, Loc: &Loc{Reg: s.Reg, Idx: BVBin("bvadd", s.Base, idx)}, Elem: et}
	case VPtr:
		// pointer to array
		e.safe(st, in, "nil", Not(s.Nil))
		if s.Loc == nil {
			st.Dead = true
			return
		}
		av, ok := e.load(st, s.Loc, s.Elem).(VArr)
		if !ok {
			e.unsupported("IndexAddr on pointer to non-array")
			return
		}
		e.safe(st, in, "index", And(nonneg, BVCmp("bvslt", idx, i64(av.N))))
		fr.Vals[in] = VPtr{Nil: False, Loc: &Loc{Reg: av.Reg, Idx: idx}, Elem: et}
	default:
		e.unsupported(fmt.Sprintf("IndexAddr on %T", x))
	}
}

func (e *Exec) sliceOp(st *State, fr *Frame, in *ssa.Slice) {
	x := e.val(st, fr, in.X)
	var reg *Region
	var base, ln, cp T
	var nilc T = False
	var elem types.Type
	isArr := false
	switch s := x.(type) {
	case VSlice:
		reg, base, ln, cp, nilc, elem = s.Reg, s.Base, s.Len, s.Cap, s.Nil, s.Elem
	case VPtr:
		e.safe(st, in, "nil", Not(s.Nil))
		if s.Loc == nil {
			st.Dead = true
			return
		}
		av, ok := e.load(st, s.Loc, s.Elem).(VArr)
		if !ok {
			e.unsupported("Slice of pointer to non-array")
			return
		}
		reg, base, ln, cp = av.Reg, i64(0), i64(av.N), i64(av.N)
		elem = av.Reg.Elem
		isArr = true
	case VStr:
		e.unsupported("string slicing")
		fr.Vals[in] = VStr{T: e.fresh("substr", BV32)}
		return
	default:
		e.unsupported(fmt.Sprintf("Slice on %T", x))
		return
	}
	_ = isArr
	lo := i64(0)
	var conds []T
	if in.Low != nil {
		t, nn := toIndex(e.asInt(e.val(st, fr, in.Low)))
		lo = t
		conds = append(conds, nn)
	}
	hi := ln
	if in.High != nil {
		t, nn := toIndex(e.asInt(e.val(st, fr, in.High)))
		hi = t
		conds = append(conds, nn)
	}
	mx := cp
	if in.Max != nil {
		t, nn := toIndex(e.asInt(e.val(st, fr, in.Max)))
		mx = t
		conds = append(conds, nn, BVCmp("bvsle", mx, cp))
	}
	conds = append(conds, BVCmp("bvsle", lo, hi), BVCmp("bvsle", hi, mx))
	e.safe(st, in, "slice", And(conds...))
	nnil := nilc
	if isArr {
		nnil = False
	}
	fr.Vals[in] = VSlice{Nil: nnil, Reg: reg, Base: BVBin("bvadd", base, lo), Len: BVBin("bvsub", hi, lo), Cap: BVBin("bvsub", mx, lo), Elem: elem}
}

func (e *Exec) makeSlice(st *State, fr *Frame, in *ssa.MakeSlice) {
	ln, n1 := toIndex(e.asInt(e.val(st, fr, in.Len)))
	cp, n2 := toIndex(e.asInt(e.val(st, fr, in.Cap)))
	elem := in.Type().Underlying().(*types.Slice).Elem()
	e.safe(st, in, "makeslice", And(n1, n2, BVCmp("bvsle", ln, cp), BVCmp("bvslt", cp, i64(1<<47))))
	e.checkAllocBound(st, fr, in, cp)
	fr.Vals[in] = e.newSlice(st, elem, ln, cp, fmt.Sprintf("make#%d", e.nobj+1))
}

// newSlice allocates a fresh zeroed region.
func (e *Exec) newSlice(st *State, elem types.Type, ln, cp T, name string) VSlice {
	e.nobj++
	reg := &Region{ID: e.nobj, Name: name, Elem: elem}
	if s, ok := elemSort(elem); ok && s.K == SBV {
		z := T{S: fmt.Sprintf("((as const %s) %s)", ArrSort(BV64, s).String(), BVConst(s.W, 0).S), Sort: ArrSort(BV64, s)}
		reg.Init = &z
	}
	e.allRegs[reg.Name] = reg
	e.freshRegs[reg] = true
	return VSlice{Nil: False, Reg: reg, Base: i64(0), Len: ln, Cap: cp, Elem: elem}
}

func (e *Exec) checkAllocBound(st *State, fr *Frame, in ssa.Instruction, n T) {
	c := e.prog.contracts.Funcs[fnKey(fr.Fn)]
	if fr.Fn == e.fn {
		c = e.contract
	}
	if c == nil {
		return
	}
	env := e.frameEnv(st, fr)
	for _, ab := range c.AllocBound {
		b := env.evalInt(ab.E)
		bt := b.T
		if bt.Sort.W != 64 {
			if b.Signed {
				bt = SignExt(bt, 64)
			} else {
				bt = ZeroExt(bt, 64)
			}
		}
		name := e.ordinalName(in, "alloc")
		if len(ab.Labels) > 0 {
			name = fmt.Sprintf("%s[%s]", name, ab.Labels[0])
		}
		e.emit(st, name, "alloc", ab.Labels, BVCmp("bvsle", n, bt), e.where(in))
	}
}


// chanFieldKey names the struct field a channel operand was loaded from
// ("pkg.Type.field"), or "" when it is not a direct field load.
func chanFieldKey(v ssa.Value) string {
	u, ok := v.(*ssa.UnOp)
	if !ok || u.Op != token.MUL {
		return ""
	}
	fa, ok := u.X.(*ssa.FieldAddr)
	if !ok {
		return ""
	}
	pt, ok := fa.X.Type().Underlying().(*types.Pointer)
	if !ok {
		return ""
	}
	nt := namedOf(pt.Elem())
	st := structOf(pt.Elem())
	if nt == nil || st == nil || nt.Obj().Pkg() == nil {
		return ""
	}
	return nt.Obj().Pkg().Name() + "." + nt.Obj().Name() + "." + st.Field(fa.Field).Name()
}

// assumeChanInv: a value received from a channel with a declared invariant
// satisfies it (when the receive delivered a value).
func (e *Exec) assumeChanInv(st *State, fr *Frame, ch ssa.Value, msg Value, ok T) {
	key := chanFieldKey(ch)
	ci := e.prog.contracts.ChanInvs[key]
	if ci == nil {
		return
	}
	env := e.frameEnv(st, fr)
	env.pos = false
	env.vars["msg"] = msg
	env.pkgName = strings.SplitN(key, ".", 2)[0]
	g, cerr := env.tryEvalBool(ci.E)
	if cerr != "" {
		e.stale[fmt.Sprintf("chaninv %s cannot be evaluated (%s)", key, cerr)] = true
		return
	}
	e.byContr["chaninv "+key+" (assumed of received values; proved at the sends under contract)"] = true
	st.assume(Implies(ok, g))
}

// checkChanInv: a value sent on a channel with a declared invariant must satisfy it.
func (e *Exec) checkChanInv(st *State, fr *Frame, in ssa.Instruction, ch ssa.Value, msg Value) {
	key := chanFieldKey(ch)
	ci := e.prog.contracts.ChanInvs[key]
	if ci == nil {
		return
	}
	env := e.frameEnv(st, fr)
	env.vars["msg"] = msg
	env.pkgName = strings.SplitN(key, ".", 2)[0]
	g, cerr := env.tryEvalBool(ci.E)
	if cerr != "" {
		e.stale[fmt.Sprintf("chaninv %s cannot be evaluated (%s)", key, cerr)] = true
		return
	}
	e.emit(st, e.ordinalName(in, "send")+"/chaninv("+key+")", "chaninv", ci.Labels, g, e.where(in))
}
