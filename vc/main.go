package main

import (
	"time"
	"flag"
	"fmt"
	"os"
	"sort"
	"strings"

	"golang.org/x/tools/go/packages"
	"golang.org/x/tools/go/ssa"
	"golang.org/x/tools/go/ssa/ssautil"
)

var repoDir = "/repo"
var verifDir = "/verif"

// outDir receives evidence, replays and scratch work (default: verifDir);
// self-tests redirect it so that they never touch the committed evidence.
var outDir = "/verif"

var repoPkgs = []string{"./", "./segment", "./types", "./fs", "./metadb", "./metrics", "./verifier", "./migrate"}

func LoadProgram() (*Prog, error) {
	if d := os.Getenv("WALVC_REPO"); d != "" {
		repoDir = d
	}
	if d := os.Getenv("WALVC_OUT"); d != "" {
		outDir = d
	}
	cfg := &packages.Config{
		Mode:       packages.LoadSyntax,
		Dir:        repoDir,
		BuildFlags: []string{"-tags=verif"},
		Env:        append(os.Environ(), "GOFLAGS=-mod=mod", "GOPROXY=off", "GOSUMDB=off", "GOTOOLCHAIN=local"),
	}
	pkgs, err := packages.Load(cfg, repoPkgs...)
	if err != nil {
		return nil, err
	}
	nerr := 0
	for _, p := range pkgs {
		for _, e := range p.Errors {
			fmt.Fprintln(os.Stderr, "load error:", e)
			nerr++
		}
	}
	if nerr > 0 {
		return nil, fmt.Errorf("%d package load errors", nerr)
	}
	prog, spkgs := ssautil.Packages(pkgs, ssa.InstantiateGenerics|ssa.GlobalDebug)
	prog.Build()
	p := &Prog{astPkgs: pkgs, fset: prog.Fset, prog: prog, strIDs: map[string]int{}, errIDs: map[string]int{}, funcs: map[string]*ssa.Function{}, loopCache: map[*ssa.Function]*LoopSet{}, globalZero: map[*ssa.Global]bool{}, ordCache: map[*ssa.Function]map[ssa.Instruction]int{}, staleContracts: map[string]bool{}}
	var dirs []string
	for i, sp := range spkgs {
		if sp == nil {
			continue
		}
		p.pkgs = append(p.pkgs, sp)
		if len(pkgs[i].GoFiles) > 0 {
			d := pkgs[i].GoFiles[0]
			dirs = append(dirs, d[:strings.LastIndex(d, "/")])
		}
	}
	// all functions incl. methods and anonymous functions
	for fn := range ssautil.AllFunctions(prog) {
		if fn.Pkg == nil {
			continue
		}
		inRepo := false
		for _, sp := range p.pkgs {
			if fn.Pkg == sp {
				inRepo = true
			}
		}
		if !inRepo || fn.Synthetic != "" && !strings.Contains(fn.Name(), "$") {
			if !inRepo {
				continue
			}
		}
		p.funcs[fnKey(fn)] = fn
		p.allFuncs = append(p.allFuncs, fn)
	}
	dirs = append(dirs, verifDir+"/spec")
	cs, err := LoadContracts(dirs)
	if err != nil {
		return nil, err
	}
	p.contracts = cs
	return p, nil
}

type UnitResult struct {
	Key       string
	Exec      *Exec
	Obls      []*Obl
	Missing   bool
	Unsup     []string
	CErrs     []string
}

func (p *Prog) RunUnit(key string) *UnitResult {
	fn := p.funcs[key]
	c := p.contracts.Funcs[key]
	if fn == nil {
		return &UnitResult{Key: key, Missing: true}
	}
	// Property views: loop invariants labelled for a property P are only needed
	// for the obligations labelled P. The unit is executed once without them
	// (structural obligations, unlabelled invariants only) and once per such
	// property with the unlabelled invariants plus P's, emitting only P's
	// obligations. Every invariant assumed in a run is proved in that run or in
	// the base run; the queries stay small.
	views := map[string]bool{}
	if c != nil {
		for _, invs := range c.Invs {
			for _, inv := range invs {
				for _, l := range inv.Labels {
					if strings.HasPrefix(l, "assumed-") {
						// an assumed invariant is active in every run; its
						// init/preservation obligations carry the assumed-* label
						// (so they count for no property) and the clause is listed
						// among the assumptions in the evidence
						continue
					}
					views[labelProp(l)] = true
				}
			}
		}
	}
	e := NewExec(p, fn, c)
	e.viewProps = views
	e.Run()
	res := &UnitResult{Key: key, Exec: e, Obls: e.obls, Unsup: e.unsup, CErrs: e.contractErrs}
	var vs []string
	for v := range views {
		vs = append(vs, v)
	}
	sort.Strings(vs)
	for _, v := range vs {
		ev := NewExec(p, fn, c)
		ev.viewProps = views
		ev.view = v
		ev.Run()
		res.Obls = append(res.Obls, ev.obls...)
		res.Unsup = append(res.Unsup, ev.unsup...)
		res.CErrs = append(res.CErrs, ev.contractErrs...)
		for k := range ev.stale {
			e.stale[k] = true
		}
		for k := range ev.byContr {
			e.byContr[k] = true
		}
	}
	return res
}

func main() {
	if len(os.Args) < 2 {
		fmt.Fprintln(os.Stderr, "usage: walvc <calls|units|verify|check|selftest|replay> ...")
		os.Exit(2)
	}
	switch os.Args[1] {
	case "calls":
		p, err := LoadProgram()
		if err != nil {
			fmt.Fprintln(os.Stderr, err)
			os.Exit(2)
		}
		seen := map[string]bool{}
		for _, fn := range p.funcs {
			for _, b := range fn.Blocks {
				for _, in := range b.Instrs {
					if ci, ok := in.(ssa.CallInstruction); ok {
						if cal := ci.Common().StaticCallee(); cal != nil {
							s := cal.String()
							if o := cal.Origin(); o != nil {
								s = o.String() + " (generic)"
							}
							inRepo := false
							for _, sp := range p.pkgs {
								if cal.Pkg == sp {
									inRepo = true
								}
							}
							if !inRepo {
								seen[s] = true
							}
						} else if ci.Common().IsInvoke() {
							seen["invoke "+ci.Common().Value.Type().String()+"."+ci.Common().Method.Name()] = true
						}
					}
				}
			}
		}
		for _, s := range sortedKeys(seen) {
			fmt.Println(s)
		}
	case "units":
		p, err := LoadProgram()
		if err != nil {
			fmt.Fprintln(os.Stderr, err)
			os.Exit(2)
		}
		var ks []string
		for k := range p.funcs {
			ks = append(ks, k)
		}
		sort.Strings(ks)
		for _, k := range ks {
			mark := " "
			if _, ok := p.contracts.Funcs[k]; ok {
				mark = "*"
			}
			fmt.Println(mark, k)
		}
	case "verify":
		fs := flag.NewFlagSet("verify", flag.ExitOnError)
		verbose := fs.Bool("v", false, "verbose")
		timeout := fs.Int("timeout", 10000, "per-obligation timeout ms")
		dump := fs.String("dump", "", "directory to dump queries of failed obligations")
		all := fs.Bool("all", false, "run all solvers")
		fs.Parse(os.Args[2:])
		p, err := LoadProgram()
		if err != nil {
			fmt.Fprintln(os.Stderr, err)
			os.Exit(2)
		}
		units := fs.Args()
		if len(units) == 0 {
			for k, c := range p.contracts.Funcs {
				if !c.IsIface && c.Trusted == "" && !c.NoVerify {
					units = append(units, k)
				}
			}
			sort.Strings(units)
		}
		bad := 0
		for _, u := range units {
			t0 := time.Now()
			r := p.RunUnit(u)
			tExec := time.Since(t0)
			if r.Missing {
				fmt.Printf("UNIT %s: target missing\n", u)
				bad++
				continue
			}
			tmp, _ := os.MkdirTemp("", "walvc")
			t1 := time.Now()
			SolveAll(r.Obls, tmp, *timeout, *all)
			os.RemoveAll(tmp)
			fmt.Printf("  (symbolic execution %.1fs, solving %.1fs)\n", tExec.Seconds(), time.Since(t1).Seconds())
			counts := map[string]int{}
			for _, o := range r.Obls {
				counts[o.Status]++
			}
			fmt.Printf("UNIT %s: %d obligations %v paths=%d returned=%d unsupported=%v contract-errors=%v\n", u, len(r.Obls), counts, r.Exec.npaths, r.Exec.returned, r.Unsup, r.CErrs)
			if len(r.Unsup) > 0 || len(r.CErrs) > 0 {
				bad++
			}
			for n := range r.Exec.stale {
				fmt.Printf("  NOTE stale-contract: %s\n", n)
			}
			for _, o := range r.Obls {
				ok := o.Status == "proved" || o.Status == "covered" || o.Kind == "deadprobe"
				if o.Expect == "sat" && o.Status == "uncovered" {
					// only a problem if no sibling covered
					sib := false
					for _, o2 := range r.Obls {
						if o2.Name == o.Name && o2.Status == "covered" {
							sib = true
						}
					}
					if sib {
						continue
					}
				}
				if *verbose || !ok {
					fmt.Printf("  %-12s %-60s %s %dms path=%s site=%s %s\n", o.Status, o.Name, o.Backend, o.Ms, o.Path, o.Site, o.Where)
				}
				if !ok {
					bad++
				}
				if !ok || (o.Ms > 3000 && o.Kind != "deadprobe") {
					if *dump != "" {
						os.MkdirAll(*dump, 0755)
						fn := fmt.Sprintf("%s/%s_%s.smt2", *dump, sanitize(strings.ReplaceAll(o.Name, "/", "_")), o.Path)
						os.WriteFile(fn, []byte(o.Query+"; model:\n; "+strings.ReplaceAll(o.Model, "\n", "\n; ")), 0644)
					}
				}
			}
		}
		if bad > 0 {
			os.Exit(1)
		}
	case "check":
		os.Exit(cmdCheck(os.Args[2:]))
	case "selftest":
		os.Exit(cmdSelftest(os.Args[2:]))
	default:
		fmt.Fprintln(os.Stderr, "unknown command", os.Args[1])
		os.Exit(2)
	}
}
