package main

// Must-fail self-test: every seeded/mutant patch that is expected to break a
// property is applied to a scratch copy of /repo (outside /repo and /verif,
// removed afterwards) and the property's check must report the expected
// obligation. Run in the thorough tier and by `walvc selftest`.

import (
	"encoding/json"
	"fmt"
	"os"
	"os/exec"
	"path/filepath"
	"sort"
	"strings"
)

type seedMeta struct {
	Name     string `json:"name"`
	Breaks   string `json:"breaks_property"`
	Detected string `json:"detected_by"`
	Expect   []struct {
		Property   string `json:"property"`
		Obligation string `json:"obligation"` // substring of the failed obligation name
		Outcome    string `json:"outcome"`    // "violation" (default) or "undecided"
	} `json:"expect"`
}

type selftestResult struct {
	Name     string `json:"name"`
	Property string `json:"property"`
	Expected string `json:"expected"`
	Outcome  string `json:"outcome"`
	OK       bool   `json:"ok"`
}

func loadSeeds() []seedMeta {
	var out []seedMeta
	for _, base := range []string{"seeded", "mutants"} {
		dirs, _ := filepath.Glob(filepath.Join(verifDir, base, "*", "meta.json"))
		sort.Strings(dirs)
		for _, d := range dirs {
			data, err := os.ReadFile(d)
			if err != nil {
				continue
			}
			var m seedMeta
			if json.Unmarshal(data, &m) != nil {
				continue
			}
			if m.Name == "" {
				m.Name = filepath.Base(filepath.Dir(d))
			}
			out = append(out, m)
		}
	}
	return out
}

func seedDir(name string) string {
	for _, base := range []string{"seeded", "mutants"} {
		d := filepath.Join(verifDir, base, name)
		if _, err := os.Stat(filepath.Join(d, "patch.diff")); err == nil {
			return d
		}
	}
	return ""
}

// runSelftests applies each relevant patch to a scratch copy and runs the
// quick check of the property there.
func runSelftests(prop string) []selftestResult { return runSelftestsP(prop, nil) }

func runSelftestsP(prop string, progress func(selftestResult)) []selftestResult {
	var res []selftestResult
	self, _ := os.Executable()
	for _, m := range loadSeeds() {
		for _, ex := range m.Expect {
			if prop != "" && ex.Property != prop {
				continue
			}
			r := selftestResult{Name: m.Name, Property: ex.Property, Expected: ex.Obligation}
			if ex.Outcome == "" {
				ex.Outcome = "violation"
			}
			scratch, err := os.MkdirTemp("", "walvc-selftest")
			if err != nil {
				r.Outcome = "tool-error: " + err.Error()
				res = append(res, r)
				continue
			}
			func() {
				defer os.RemoveAll(scratch)
				repoCopy := filepath.Join(scratch, "repo")
				outDir := filepath.Join(scratch, "out")
				os.MkdirAll(outDir, 0755)
				if out, err := exec.Command("rsync", "-a", "--exclude", ".git", repoDir+"/", repoCopy+"/").CombinedOutput(); err != nil {
					r.Outcome = "tool-error: rsync: " + string(out)
					return
				}
				patch := filepath.Join(seedDir(m.Name), "patch.diff")
				cmd := exec.Command("patch", "-p1", "-s", "-i", patch)
				cmd.Dir = repoCopy
				if out, err := cmd.CombinedOutput(); err != nil {
					r.Outcome = "patch-does-not-apply: " + strings.TrimSpace(string(out))
					return
				}
				c := exec.Command(self, "check", "--property", ex.Property, "--tier", "quick")
				c.Env = append(os.Environ(), "WALVC_REPO="+repoCopy, "WALVC_OUT="+outDir, "WALVC_NO_REPLAY=1")
				out, _ := c.CombinedOutput()
				text := string(out)
				hasViolation := strings.Contains(text, "VIOLATION property="+ex.Property)
				hitsObl := ex.Obligation == "" || strings.Contains(text, ex.Obligation)
				switch ex.Outcome {
				case "undecided":
					r.OK = !hasViolation && strings.Contains(text, "UNDECIDED")
					r.Outcome = "undecided=" + fmt.Sprint(strings.Contains(text, "UNDECIDED")) + " violation=" + fmt.Sprint(hasViolation)
				default:
					r.OK = hasViolation && hitsObl
					r.Outcome = "violation=" + fmt.Sprint(hasViolation) + " expected-obligation-reported=" + fmt.Sprint(hitsObl)
				}
			}()
			res = append(res, r)
			if progress != nil {
				progress(r)
			}
		}
	}
	return res
}

func cmdSelftest(args []string) int {
	prop := ""
	if len(args) > 0 {
		prop = args[0]
	}
	bad := 0
	runSelftestsP(prop, func(r selftestResult) {
		st := "ok  "
		if !r.OK {
			st = "MISS"
			bad++
		}
		fmt.Printf("%s %-40s %s expect[%s] %s\n", st, r.Name, r.Property, r.Expected, r.Outcome)
	})
	if bad > 0 {
		return 1
	}
	return 0
}
