package main

// Model of github.com/benbjohnson/immutable.SortedMap[uint64, V] (v0.4.3) as
// used by raft-wal: an immutable finite map from uint64 keys to struct values,
// iterated in key order. A map value is a region (struct-of-arrays indexed by
// key) plus a `present` array and a length; Set/Delete return a new region.
// Iterators are a (valid, cursor) pair over spec functions smNext/smPrev/
// smMin/smMax/smSeek of the present array, axiomatised below (transcribed from
// SortedMapIterator: Next/Prev return the current pair and then move).

import (
	"fmt"
	"go/types"
	"strings"

	"golang.org/x/tools/go/ssa"
)

const smapPrelude = `
(declare-fun smHasNext ((Array (_ BitVec 64) Bool) (_ BitVec 64)) Bool)
(declare-fun smNext ((Array (_ BitVec 64) Bool) (_ BitVec 64)) (_ BitVec 64))
(declare-fun smHasPrev ((Array (_ BitVec 64) Bool) (_ BitVec 64)) Bool)
(declare-fun smPrev ((Array (_ BitVec 64) Bool) (_ BitVec 64)) (_ BitVec 64))
(declare-fun smNonEmpty ((Array (_ BitVec 64) Bool)) Bool)
(declare-fun smMin ((Array (_ BitVec 64) Bool)) (_ BitVec 64))
(declare-fun smMax ((Array (_ BitVec 64) Bool)) (_ BitVec 64))
(declare-fun smHasSeek ((Array (_ BitVec 64) Bool) (_ BitVec 64)) Bool)
(declare-fun smSeek ((Array (_ BitVec 64) Bool) (_ BitVec 64)) (_ BitVec 64))
(assert (forall ((p (Array (_ BitVec 64) Bool)) (k (_ BitVec 64)))
  (! (=> (smHasNext p k) (and (bvugt (smNext p k) k) (select p (smNext p k)))) :pattern ((smNext p k)))))
(assert (forall ((p (Array (_ BitVec 64) Bool)) (k (_ BitVec 64)) (j (_ BitVec 64)))
  (! (=> (and (smHasNext p k) (bvugt j k) (bvult j (smNext p k))) (not (select p j))) :pattern ((smNext p k) (select p j)))))
(assert (forall ((p (Array (_ BitVec 64) Bool)) (k (_ BitVec 64)) (j (_ BitVec 64)))
  (! (=> (and (not (smHasNext p k)) (bvugt j k)) (not (select p j))) :pattern ((smHasNext p k) (select p j)))))
(assert (forall ((p (Array (_ BitVec 64) Bool)) (k (_ BitVec 64)))
  (! (=> (smHasPrev p k) (and (bvult (smPrev p k) k) (select p (smPrev p k)))) :pattern ((smPrev p k)))))
(assert (forall ((p (Array (_ BitVec 64) Bool)) (k (_ BitVec 64)) (j (_ BitVec 64)))
  (! (=> (and (smHasPrev p k) (bvult j k) (bvugt j (smPrev p k))) (not (select p j))) :pattern ((smPrev p k) (select p j)))))
(assert (forall ((p (Array (_ BitVec 64) Bool)) (k (_ BitVec 64)) (j (_ BitVec 64)))
  (! (=> (and (not (smHasPrev p k)) (bvult j k)) (not (select p j))) :pattern ((smHasPrev p k) (select p j)))))
(assert (forall ((p (Array (_ BitVec 64) Bool)))
  (! (=> (smNonEmpty p) (and (select p (smMin p)) (select p (smMax p)) (bvule (smMin p) (smMax p)))) :pattern ((smNonEmpty p)))))
(assert (forall ((p (Array (_ BitVec 64) Bool)) (j (_ BitVec 64)))
  (! (=> (select p j) (and (smNonEmpty p) (bvule (smMin p) j) (bvule j (smMax p)))) :pattern ((select p j) (smNonEmpty p)))))
(assert (forall ((p (Array (_ BitVec 64) Bool)) (k (_ BitVec 64)))
  (! (=> (smHasSeek p k) (and (bvuge (smSeek p k) k) (select p (smSeek p k)))) :pattern ((smSeek p k)))))
(assert (forall ((p (Array (_ BitVec 64) Bool)) (k (_ BitVec 64)) (j (_ BitVec 64)))
  (! (=> (and (smHasSeek p k) (bvuge j k) (bvult j (smSeek p k))) (not (select p j))) :pattern ((smSeek p k) (select p j)))))
(assert (forall ((p (Array (_ BitVec 64) Bool)) (k (_ BitVec 64)) (j (_ BitVec 64)))
  (! (=> (and (not (smHasSeek p k)) (bvuge j k)) (not (select p j))) :pattern ((smHasSeek p k) (select p j)))))
`

// Derived facts about updates of the present array. Each is proved from the
// axioms above by the lemma files /verif/spec/lemmas/{insert_max,delete_max,
// delete_min,order,store}_*.smt2 (checked in every run of the properties that use
// the map model); they are added as axioms only to spare the solvers the
// inductive-looking instantiation work.
const smapDerived = `
(assert (forall ((p (Array (_ BitVec 64) Bool)) (n (_ BitVec 64)))
  (! (=> (or (not (smNonEmpty p)) (bvugt n (smMax p)))
         (and (smNonEmpty (store p n true)) (= (smMax (store p n true)) n)
              (= (smMin (store p n true)) (ite (smNonEmpty p) (smMin p) n))
              (not (smHasNext (store p n true) n))
              (=> (smNonEmpty p) (and (smHasNext (store p n true) (smMax p)) (= (smNext (store p n true) (smMax p)) n)
                                      (smHasPrev (store p n true) n) (= (smPrev (store p n true) n) (smMax p))))))
     :pattern ((store p n true)))))
(assert (forall ((p (Array (_ BitVec 64) Bool)) (n (_ BitVec 64)) (k (_ BitVec 64)))
  (! (=> (and (or (not (smNonEmpty p)) (bvugt n (smMax p))) (select p k) (not (= k (smMax p))))
         (and (= (smHasNext (store p n true) k) (smHasNext p k)) (= (smNext (store p n true) k) (smNext p k))))
     :pattern ((smNext (store p n true) k)) :pattern ((smHasNext (store p n true) k)))))
(assert (forall ((p (Array (_ BitVec 64) Bool)))
  (! (=> (smNonEmpty p)
         (and (= (smNonEmpty (store p (smMax p) false)) (smHasPrev p (smMax p)))
              (=> (smNonEmpty (store p (smMax p) false))
                  (and (= (smMax (store p (smMax p) false)) (smPrev p (smMax p)))
                       (= (smMin (store p (smMax p) false)) (smMin p))
                       (not (smHasNext (store p (smMax p) false) (smPrev p (smMax p))))))))
     :pattern ((store p (smMax p) false)))))
(assert (forall ((p (Array (_ BitVec 64) Bool)) (k (_ BitVec 64)))
  (! (=> (and (smNonEmpty p) (select (store p (smMax p) false) k) (not (= k (smPrev p (smMax p)))))
         (and (= (smHasNext (store p (smMax p) false) k) (smHasNext p k)) (= (smNext (store p (smMax p) false) k) (smNext p k))))
     :pattern ((smNext (store p (smMax p) false) k)) :pattern ((smHasNext (store p (smMax p) false) k)))))
(assert (forall ((p (Array (_ BitVec 64) Bool)))
  (! (=> (smNonEmpty p)
         (=> (smNonEmpty (store p (smMin p) false))
             (and (= (smMin (store p (smMin p) false)) (smNext p (smMin p)))
                  (= (smMax (store p (smMin p) false)) (smMax p)))))
     :pattern ((store p (smMin p) false)))))
(assert (forall ((p (Array (_ BitVec 64) Bool)) (k (_ BitVec 64)))
  (! (=> (and (smNonEmpty p) (select (store p (smMin p) false) k))
         (and (= (smHasNext (store p (smMin p) false) k) (smHasNext p k))
              (=> (smHasNext p k) (= (smNext (store p (smMin p) false) k) (smNext p k)))))
     :pattern ((smNext (store p (smMin p) false) k)) :pattern ((smHasNext (store p (smMin p) false) k)))))
(assert (forall ((p (Array (_ BitVec 64) Bool)) (k (_ BitVec 64)))
  (! (=> (select p k) (= (store p k true) p)) :pattern ((store p k true)))))
(assert (forall ((p (Array (_ BitVec 64) Bool)) (k (_ BitVec 64)) (j (_ BitVec 64)))
  (! (=> (and (select p k) (select p j) (bvult k j)) (and (smHasNext p k) (bvule (smNext p k) j)))
     :pattern ((smNext p k) (select p j)))))
(assert (forall ((p (Array (_ BitVec 64) Bool)) (k (_ BitVec 64)))
  (! (=> (and (select p k) (smHasNext p k)) (and (smHasPrev p (smNext p k)) (= (smPrev p (smNext p k)) k)))
     :pattern ((smNext p k)))))
(assert (forall ((p (Array (_ BitVec 64) Bool)) (k (_ BitVec 64)))
  (! (=> (and (select p k) (smHasPrev p k)) (and (smHasNext p (smPrev p k)) (= (smNext p (smPrev p k)) k)))
     :pattern ((smPrev p k)))))
(assert (forall ((p (Array (_ BitVec 64) Bool)))
  (! (=> (smNonEmpty p) (and (not (smHasNext p (smMax p))) (not (smHasPrev p (smMin p))))) :pattern ((smNonEmpty p)))))
(assert (forall ((p (Array (_ BitVec 64) Bool)) (k (_ BitVec 64)))
  (! (=> (and (select p k) (not (smHasNext p k))) (= k (smMax p))) :pattern ((smHasNext p k)))))
(assert (forall ((p (Array (_ BitVec 64) Bool)) (k (_ BitVec 64)))
  (! (=> (select p k) (and (smHasSeek p k) (= (smSeek p k) k))) :pattern ((smSeek p k)))))
`

var presentSort = ArrSort(BV64, BoolSort)

// VSMap is a pointer to an immutable sorted map.
type VSMap struct {
	Nil  T
	Reg  *Region // values: struct-of-arrays indexed by key; "#present" array; Len in st.Ghost
	Elem types.Type
}

// VSIter is a sorted-map iterator.
type VSIter struct {
	M  VSMap
	ID string
}

func isSortedMapPtr(t types.Type) (types.Type, bool) {
	p, ok := t.(*types.Pointer)
	if !ok {
		return nil, false
	}
	return isSortedMapType(p.Elem())
}

func isSortedMapType(t types.Type) (types.Type, bool) {
	n, ok := t.(*types.Named)
	if !ok || n.Obj().Pkg() == nil || n.Obj().Pkg().Path() != "github.com/benbjohnson/immutable" || n.Obj().Name() != "SortedMap" {
		return nil, false
	}
	ta := n.TypeArgs()
	if ta == nil || ta.Len() != 2 {
		return nil, false
	}
	return ta.At(1), true
}

func (e *Exec) smPresent(st *State, m VSMap) T {
	if mm, ok := st.Mem[m.Reg]; ok {
		if t, ok := mm["#present"]; ok {
			return t
		}
	}
	return e.declare(m.Reg.Name+"@present", presentSort)
}

func (e *Exec) smLen(st *State, m VSMap) T {
	if v, ok := st.Ghost["smaplen:"+m.Reg.Name]; ok {
		return v.(VInt).T
	}
	t := e.declare("smaplen:"+m.Reg.Name, BV64)
	e.addAxiom(And(BVCmp("bvsle", i64(0), t), BVCmp("bvslt", t, i64(1<<maxLenBits))))
	return t
}

// smDerive creates a new map value sharing the arrays of m.
func (e *Exec) smDerive(st *State, m VSMap, tag string) VSMap {
	e.nobj++
	nr := &Region{ID: e.nobj, Name: fmt.Sprintf("%s>%s%d", m.Reg.Name, tag, e.nobj), Elem: m.Elem}
	e.allRegs[nr.Name] = nr
	nm := map[string]T{}
	if old, ok := st.Mem[m.Reg]; ok {
		for k, v := range old {
			nm[k] = v
		}
	}
	st.Mem[nr] = nm
	if m.Reg.Init == nil {
		e.regionAlias[nr] = m.Reg
	}
	nm["#present"] = e.smPresent(st, m)
	st.Ghost["smaplen:"+nr.Name] = VInt{T: e.smLen(st, m), Signed: true}
	return VSMap{Nil: False, Reg: nr, Elem: m.Elem}
}

func (e *Exec) smEmpty(st *State, elem types.Type) VSMap {
	e.nobj++
	nr := &Region{ID: e.nobj, Name: fmt.Sprintf("smap#%d", e.nobj), Elem: elem}
	e.allRegs[nr.Name] = nr
	st.Mem[nr] = map[string]T{"#present": constArr(BV64, BoolSort, False)}
	st.Ghost["smaplen:"+nr.Name] = VInt{T: i64(0), Signed: true}
	return VSMap{Nil: False, Reg: nr, Elem: elem}
}

func key64(v Value) T {
	if vi, ok := v.(VInt); ok {
		return ZeroExt(vi.T, 64)
	}
	return BVConst(64, 0)
}

func (e *Exec) iterGet(st *State, it VSIter) (valid, cur T) {
	if v, ok := st.Ghost["it:"+it.ID+":valid"]; ok {
		valid = v.(VBool).T
	} else {
		valid = e.declare("it:"+it.ID+":valid", BoolSort)
	}
	if v, ok := st.Ghost["it:"+it.ID+":cur"]; ok {
		cur = v.(VInt).T
	} else {
		cur = e.declare("it:"+it.ID+":cur", BV64)
	}
	return
}

func (e *Exec) iterSet(st *State, it VSIter, valid, cur T) {
	st.Ghost["it:"+it.ID+":valid"] = VBool{valid}
	st.Ghost["it:"+it.ID+":cur"] = VInt{T: cur}
	st.Writes["ghost:it:"+it.ID+":valid"] = true
	st.Writes["ghost:it:"+it.ID+":cur"] = true
}

func smapRecv(e *Exec, st *State, v Value) (VSMap, bool) {
	switch x := v.(type) {
	case VSMap:
		return x, true
	}
	e.unsupported(fmt.Sprintf("sorted map receiver %T", v))
	return VSMap{}, false
}

func init() {
	specPreludes["smNext"] = smapPrelude + smapDerived
	for _, k := range []string{"smHasNext", "smPrev", "smHasPrev", "smNonEmpty", "smMin", "smMax", "smHasSeek", "smSeek"} {
		specPreludeAlias[k] = "smNext"
	}
	specPreludeOrder = append(specPreludeOrder, "smNext")
	pfx := "(*github.com/benbjohnson/immutable.SortedMap[K, V])."
	ipfx := "(*github.com/benbjohnson/immutable.SortedMapIterator[K, V])."
	intrinsics[pfx+"Len"] = func(e *Exec, st *State, fr *Frame, a []Value, in ssa.Instruction) Value {
		m, ok := smapRecv(e, st, a[0])
		if !ok {
			return VInt{T: e.fresh("smlen", BV64), Signed: true}
		}
		e.safe(st, in, "nil", Not(m.Nil))
		return VInt{T: e.smLen(st, m), Signed: true}
	}
	intrinsics[pfx+"Set"] = func(e *Exec, st *State, fr *Frame, a []Value, in ssa.Instruction) Value {
		m, ok := smapRecv(e, st, a[0])
		if !ok {
			return a[0]
		}
		e.safe(st, in, "nil", Not(m.Nil))
		k := key64(a[1])
		nm := e.smDerive(st, m, "set")
		p := e.smPresent(st, nm)
		ln := e.smLen(st, nm)
		e.writeElem(st, nm.Reg, k, nil, a[2])
		st.Mem[nm.Reg]["#present"] = Store(p, k, True)
		st.Ghost["smaplen:"+nm.Reg.Name] = VInt{T: Ite(Select(p, k), ln, BVBin("bvadd", ln, i64(1))), Signed: true}
		return nm
	}
	intrinsics[pfx+"Delete"] = func(e *Exec, st *State, fr *Frame, a []Value, in ssa.Instruction) Value {
		m, ok := smapRecv(e, st, a[0])
		if !ok {
			return a[0]
		}
		e.safe(st, in, "nil", Not(m.Nil))
		k := key64(a[1])
		nm := e.smDerive(st, m, "del")
		p := e.smPresent(st, nm)
		ln := e.smLen(st, nm)
		st.Mem[nm.Reg]["#present"] = Store(p, k, False)
		st.Ghost["smaplen:"+nm.Reg.Name] = VInt{T: Ite(Select(p, k), BVBin("bvsub", ln, i64(1)), ln), Signed: true}
		return nm
	}
	intrinsics[pfx+"Get"] = func(e *Exec, st *State, fr *Frame, a []Value, in ssa.Instruction) Value {
		m, ok := smapRecv(e, st, a[0])
		if !ok {
			return VTuple{}
		}
		e.safe(st, in, "nil", Not(m.Nil))
		k := key64(a[1])
		return VTuple{E: []Value{e.readElem(st, m.Reg, k, nil, m.Elem), VBool{Select(e.smPresent(st, m), k)}}}
	}
	intrinsics[pfx+"Iterator"] = func(e *Exec, st *State, fr *Frame, a []Value, in ssa.Instruction) Value {
		m, ok := smapRecv(e, st, a[0])
		if !ok {
			return VSIter{}
		}
		e.safe(st, in, "nil", Not(m.Nil))
		e.nobj++
		it := VSIter{M: m, ID: fmt.Sprintf("%d", e.nobj)}
		p := e.smPresent(st, m)
		e.specFns["smNext"] = true
		e.iterSet(st, it, UF("smNonEmpty", BoolSort, p), UF("smMin", BV64, p))
		return it
	}
	intrinsics[ipfx+"Done"] = func(e *Exec, st *State, fr *Frame, a []Value, in ssa.Instruction) Value {
		it := a[0].(VSIter)
		v, _ := e.iterGet(st, it)
		return VBool{Not(v)}
	}
	intrinsics[ipfx+"First"] = func(e *Exec, st *State, fr *Frame, a []Value, in ssa.Instruction) Value {
		it := a[0].(VSIter)
		p := e.smPresent(st, it.M)
		e.iterSet(st, it, UF("smNonEmpty", BoolSort, p), UF("smMin", BV64, p))
		return nil
	}
	intrinsics[ipfx+"Last"] = func(e *Exec, st *State, fr *Frame, a []Value, in ssa.Instruction) Value {
		it := a[0].(VSIter)
		p := e.smPresent(st, it.M)
		e.iterSet(st, it, UF("smNonEmpty", BoolSort, p), UF("smMax", BV64, p))
		return nil
	}
	intrinsics[ipfx+"Seek"] = func(e *Exec, st *State, fr *Frame, a []Value, in ssa.Instruction) Value {
		it := a[0].(VSIter)
		p := e.smPresent(st, it.M)
		k := key64(a[1])
		e.iterSet(st, it, UF("smHasSeek", BoolSort, p, k), UF("smSeek", BV64, p, k))
		return nil
	}
	step := func(next bool) intrinsic {
		return func(e *Exec, st *State, fr *Frame, a []Value, in ssa.Instruction) Value {
			it := a[0].(VSIter)
			p := e.smPresent(st, it.M)
			valid, cur := e.iterGet(st, it)
			e.specFns["smNext"] = true
			// name the returned key to keep terms small
			kv := e.fresh("itkey", BV64)
			st.assume(Eq(kv, cur))
			val := e.readElem(st, it.M.Reg, kv, nil, it.M.Elem)
			var nv, nc T
			if next {
				nv, nc = UF("smHasNext", BoolSort, p, kv), UF("smNext", BV64, p, kv)
			} else {
				nv, nc = UF("smHasPrev", BoolSort, p, kv), UF("smPrev", BV64, p, kv)
			}
			e.iterSet(st, it, And(valid, nv), nc)
			// when !valid the returned key/value are zero values; callers only use them under ok
			st.assume(Implies(valid, Select(p, kv)))
			return VTuple{E: []Value{VInt{T: kv}, val, VBool{valid}}}
		}
	}
	intrinsics[ipfx+"Next"] = step(true)
	intrinsics[ipfx+"Prev"] = step(false)

	// contract-language access
	specFuncs["smhas"] = func(env *Env, n *ECall) Value {
		m := env.smapArg(n.Args[0])
		k := coerceUntyped(env.evalInt(n.Args[1]), 64, false).T
		return VBool{Select(env.e.smPresent(env.st, m), k)}
	}
	specFuncs["smget"] = func(env *Env, n *ECall) Value {
		m := env.smapArg(n.Args[0])
		k := coerceUntyped(env.evalInt(n.Args[1]), 64, false).T
		return env.e.readElem(env.st, m.Reg, k, nil, m.Elem)
	}
	specFuncs["smlen"] = func(env *Env, n *ECall) Value {
		m := env.smapArg(n.Args[0])
		return VInt{T: env.e.smLen(env.st, m), Signed: true}
	}
	for name, uf := range map[string][2]string{"smnext": {"smHasNext", "smNext"}, "smprev": {"smHasPrev", "smPrev"}} {
		uf := uf
		specFuncs["has"+name[2:]] = func(env *Env, n *ECall) Value {
			m := env.smapArg(n.Args[0])
			k := coerceUntyped(env.evalInt(n.Args[1]), 64, false).T
			env.e.specFns["smNext"] = true
			return VBool{UF(uf[0], BoolSort, env.e.smPresent(env.st, m), k)}
		}
		specFuncs[name] = func(env *Env, n *ECall) Value {
			m := env.smapArg(n.Args[0])
			k := coerceUntyped(env.evalInt(n.Args[1]), 64, false).T
			env.e.specFns["smNext"] = true
			return VInt{T: UF(uf[1], BV64, env.e.smPresent(env.st, m), k)}
		}
	}
	// iterator position: itvalid(it) <=> !it.Done(); itcur(it) is the key the next Next()/Prev() returns
	specFuncs["itvalid"] = func(env *Env, n *ECall) Value {
		it, ok := env.eval(n.Args[0]).(VSIter)
		if !ok {
			env.fail("itvalid: expected a sorted-map iterator")
		}
		v, _ := env.e.iterGet(env.st, it)
		return VBool{v}
	}
	specFuncs["itcur"] = func(env *Env, n *ECall) Value {
		it, ok := env.eval(n.Args[0]).(VSIter)
		if !ok {
			env.fail("itcur: expected a sorted-map iterator")
		}
		_, c := env.e.iterGet(env.st, it)
		return VInt{T: c}
	}
	specFuncs["smnonempty"] = func(env *Env, n *ECall) Value {
		m := env.smapArg(n.Args[0])
		env.e.specFns["smNext"] = true
		return VBool{UF("smNonEmpty", BoolSort, env.e.smPresent(env.st, m))}
	}
	specFuncs["smmin"] = func(env *Env, n *ECall) Value {
		m := env.smapArg(n.Args[0])
		env.e.specFns["smNext"] = true
		return VInt{T: UF("smMin", BV64, env.e.smPresent(env.st, m))}
	}
	specFuncs["smmax"] = func(env *Env, n *ECall) Value {
		m := env.smapArg(n.Args[0])
		env.e.specFns["smNext"] = true
		return VInt{T: UF("smMax", BV64, env.e.smPresent(env.st, m))}
	}
}

func (env *Env) smapArg(x Expr) VSMap {
	v := env.eval(x)
	if m, ok := v.(VSMap); ok {
		return m
	}
	env.fail("expected a sorted map, got %T", v)
	return VSMap{}
}

var _ = strings.Contains
