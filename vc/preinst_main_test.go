package main

import (
	"os"
	"testing"
)

func TestPreinstFile(t *testing.T) {
	f := os.Getenv("PREINST_IN")
	if f == "" {
		t.Skip()
	}
	data, _ := os.ReadFile(f)
	out := PreInstantiate(string(data), 3)
	os.WriteFile(os.Getenv("PREINST_OUT"), []byte(out), 0644)
}
