package main

// `walvc check --property Cnn --tier quick|thorough`: the registered check.

import (
	"os/exec"
	"sync"
	"runtime"
	"encoding/json"
	"flag"
	"fmt"
	"os"
	"path/filepath"
	"sort"
	"strconv"
	"strings"
	"time"
)

type Finding struct {
	Kind       string // finding | fixed
	Property   string
	Obligation string // exact obligation name (finding)
	Site       string // optional site restriction
	Text       string
}

func loadFindings(path string) []Finding {
	data, err := os.ReadFile(path)
	if err != nil {
		return nil
	}
	var fs []Finding
	for _, line := range strings.Split(string(data), "\n") {
		line = strings.TrimSpace(line)
		if line == "" || strings.HasPrefix(line, "#") {
			continue
		}
		var f Finding
		switch {
		case strings.HasPrefix(line, "finding:"):
			f.Kind = "finding"
			line = strings.TrimSpace(line[len("finding:"):])
		case strings.HasPrefix(line, "fixed:"):
			f.Kind = "fixed"
			line = strings.TrimSpace(line[len("fixed:"):])
		default:
			continue
		}
		parts := strings.SplitN(line, "::", 2)
		if len(parts) == 2 {
			f.Text = strings.TrimSpace(parts[1])
		}
		for _, kv := range strings.Fields(parts[0]) {
			if i := strings.Index(kv, "="); i > 0 {
				k, v := kv[:i], kv[i+1:]
				switch k {
				case "property":
					f.Property = v
				case "obligation":
					f.Obligation = v
				case "site":
					f.Site = v
				}
			}
		}
		if f.Kind == "fixed" && f.Text == "" {
			f.Text = parts[0]
		}
		fs = append(fs, f)
	}
	return fs
}

func hasPropLabel(labels []string, prop string) bool {
	for _, l := range labels {
		if l == prop || strings.HasPrefix(l, prop+".") {
			return true
		}
	}
	return false
}

func contains(ss []string, s string) bool {
	for _, x := range ss {
		if x == s {
			return true
		}
	}
	return false
}

// unitsForProperty: every unit whose contract lists the property in `props`
// or carries a clause labelled with it.
func (p *Prog) unitsForProperty(prop string) []string {
	var us []string
	for k, c := range p.contracts.Funcs {
		if c.IsIface || c.Trusted != "" || c.NoVerify {
			continue
		}
		if _, isFn := p.funcs[k]; !isFn && len(c.ParamNames) > 0 {
			continue // function-type contract: proved by the closures that implement it
		}
		in := contains(c.Props, prop)
		if !in {
			for _, cl := range c.Ensures {
				if hasPropLabel(cl.Labels, prop) {
					in = true
				}
			}
			for _, sc := range c.Sites {
				if hasPropLabel(sc.Clause.Labels, prop) {
					in = true
				}
			}
			for _, cl := range c.AllocBound {
				if hasPropLabel(cl.Labels, prop) {
					in = true
				}
			}
		}
		if in {
			us = append(us, k)
		}
	}
	sort.Strings(us)
	return us
}

// relevant reports whether a failed obligation counts against prop.
func relevant(o *Obl, c *Contract, prop string) bool {
	if o.RefinesKey != "" {
		// links an interface contract this property's units rely on to its implementation
		return true
	}
	if len(o.Labels) > 0 {
		return hasPropLabel(o.Labels, prop)
	}
	if c == nil {
		if len(o.Props) > 0 {
			return contains(o.Props, prop)
		}
		return true
	}
	return contains(c.Props, prop)
}

type sample struct {
	Obligation string `json:"obligation"`
	Kind       string `json:"kind"`
	Status     string `json:"status"`
	Backend    string `json:"backend"`
	Ms         int64  `json:"ms"`
	SMTBytes   int    `json:"smt_bytes"`
	Where      string `json:"where,omitempty"`
}

func cmdCheck(args []string) int {
	fs := flag.NewFlagSet("check", flag.ExitOnError)
	prop := fs.String("property", "", "property id")
	tier := fs.String("tier", "", "quick|thorough")
	fs.Parse(args)
	if *tier == "" {
		*tier = os.Getenv("VERIF_TIER")
	}
	if *tier == "" {
		*tier = "quick"
	}
	seed := 0
	if s := os.Getenv("VERIF_SEED"); s != "" {
		seed, _ = strconv.Atoi(s)
	}
	start := time.Now()
	p, err := LoadProgram()
	if err != nil {
		fmt.Println("UNDECIDED tool-error:", err)
		return 2
	}
	res := p.CheckProperty(*prop, *tier, seed)
	if *tier == "thorough" && os.Getenv("WALVC_REPO") == "" {
		st := runSelftests(*prop)
		res.Extra["must_fail_selftest"] = st
		for _, r := range st {
			if !r.OK {
				res.Lines = append(res.Lines, fmt.Sprintf("SELFTEST-MISS: %s (%s): %s", r.Name, r.Property, r.Outcome))
			}
		}
	}
	res.WallS = time.Since(start).Seconds()
	res.writeEvidence()
	for _, l := range res.Lines {
		fmt.Println(l)
	}
	fmt.Printf("property=%s tier=%s units=%d obligations=%d discharged=%d trivial-safety=%d known-findings=%d violations=%d undecided=%d wall=%.1fs\n",
		*prop, *tier, len(res.Units), res.NObl, res.NDischarged, res.NTrivial, res.NKnown, res.NViol, res.NUndecided, res.WallS)
	if res.NViol > 0 {
		return 1
	}
	if res.NUndecided > 0 || res.Broken != "" {
		if res.Broken != "" {
			fmt.Println("UNDECIDED", res.Broken)
		}
		return 2
	}
	return 0
}

type CheckResult struct {
	prog        *Prog
	Prop        string
	Tier        string
	Seed        int
	Units       []string
	NObl        int
	NDischarged int
	NTrivial    int
	NAssumedFalse int
	NKnown      int
	NViol       int
	NUndecided  int
	Broken      string
	Lines       []string
	Samples     []sample
	Backends    map[string]int
	SolverMs    int64
	Trusted     map[string]bool
	Assumed     map[string]bool
	Inlined     map[string]bool
	Unspec      map[string]bool
	Bounded     map[string]bool
	NoInv       map[string]bool
	OutOfSubset map[string]bool
	Skipped     map[string]bool
	Stale       map[string]bool
	KnownHit    []string
	DeadReturns []string
	Failed      []*Obl
	WallS       float64
	Extra       map[string]interface{}
	Lemmas      int
	Statics     []string
	RefUnits    []string            // units run only for their refinement obligations
	RefNotes    map[string]bool     // what a refinement does not cover
	Couplings   map[string]bool     // coupling definitions used
	RefOf       map[string][]string // interface contract -> implementations declared to refine it
}

func (p *Prog) CheckProperty(prop, tier string, seed int) *CheckResult {
	res := &CheckResult{prog: p, Prop: prop, Tier: tier, Seed: seed, Backends: map[string]int{}, Trusted: map[string]bool{}, Assumed: map[string]bool{}, Inlined: map[string]bool{}, Unspec: map[string]bool{}, Bounded: map[string]bool{}, NoInv: map[string]bool{}, OutOfSubset: map[string]bool{}, Skipped: map[string]bool{}, Stale: map[string]bool{}, Extra: map[string]interface{}{}, RefNotes: map[string]bool{}, Couplings: map[string]bool{}, RefOf: map[string][]string{}}
	units := p.unitsForProperty(prop)
	res.Units = units
	timeout := 10000
	all := false
	if tier == "thorough" {
		// longer limits, then every proved obligation is re-decided by a solver
		// of the other family (crossCheck below)
		timeout = 60000
	}
	// other jobs on the machine slow the solvers down: scale the time limits
	// with the load so that a proof does not turn into a timeout
	if la := loadAverage(); la > float64(runtime.NumCPU())/2 {
		f := la / (float64(runtime.NumCPU()) / 2)
		if f > 4 {
			f = 4
		}
		timeout = int(float64(timeout) * f)
		loadFactor = f
		res.Extra["timeout_scaled_for_load"] = fmt.Sprintf("load average %.1f on %d cpus: time limits x%.1f", la, runtime.NumCPU(), f)
	}
	var obls []*Obl
	unitOf := map[*Obl]*Contract{}
	for _, u := range units {
		tU := time.Now()
		r := p.RunUnit(u)
		if os.Getenv("WALVC_PROF") != "" {
			fmt.Fprintf(os.Stderr, "prof: exec %s %.1fs\n", u, time.Since(tU).Seconds())
		}
		if r.Missing {
			res.Lines = append(res.Lines, fmt.Sprintf("UNDECIDED target-missing %s", u))
			res.NUndecided++
			continue
		}
		c := p.contracts.Funcs[u]
		for _, m := range r.Unsup {
			res.OutOfSubset[u+": "+m] = true
		}
		if len(r.CErrs) > 0 {
			res.Broken = fmt.Sprintf("contract-error in %s: %s", u, strings.Join(r.CErrs, "; "))
		}
		e := r.Exec
		res.NTrivial += e.ntrivial
		res.NAssumedFalse += e.nAssumedFalse
		for k := range e.intrUsed {
			res.Trusted[k] = true
		}
		for k := range e.byContr {
			res.Assumed[k] = true
		}
		for k := range e.inlined {
			res.Inlined[k] = true
		}
		for k := range e.unspec {
			res.Unspec[k] = true
		}
		for k := range e.boundedLoops {
			res.Bounded[k] = true
		}
		for k := range e.noInvLoops {
			res.NoInv[k] = true
		}
		for k := range e.skippedEnsures {
			res.Skipped[k] = true
		}
		for k := range e.stale {
			res.Stale[k] = true
		}
		for _, o := range r.Obls {
			unitOf[o] = c
			obls = append(obls, o)
		}
	}
	// refinement pass: an interface contract these units rely on is linked to
	// the repository's implementation by the units declared `refines <key>`.
	// Such a unit is run here as well (unless it is one of the property's own
	// units); of its obligations only the refinement ones and the loop
	// invariants they rest on are kept. Contracts those units rely on in turn
	// are followed (a few rounds suffice).
	ran := map[string]bool{}
	for _, u := range units {
		ran[u] = true
	}
	refGaps := map[string]int{}
	seenExec := map[*Exec]bool{}
	collect := func(e *Exec) {
		if seenExec[e] {
			return
		}
		seenExec[e] = true
		for k, n := range e.refineGaps {
			if n > refGaps[k] {
				refGaps[k] = n
			}
		}
		for k := range e.refineNotes {
			res.RefNotes[k] = true
		}
		for k := range e.couplingsUsed {
			res.Couplings[k] = true
		}
	}
	for k, c := range p.contracts.Funcs {
		for _, r := range c.Refines {
			res.RefOf[r] = append(res.RefOf[r], k)
		}
	}
	for round := 0; round < 4; round++ {
		var more []string
		for k, c := range p.contracts.Funcs {
			if ran[k] || len(c.Refines) == 0 || p.funcs[k] == nil {
				continue
			}
			for _, r := range c.Refines {
				if res.Assumed[r] {
					more = append(more, k)
					break
				}
			}
		}
		if len(more) == 0 {
			break
		}
		sort.Strings(more)
		for _, u := range more {
			ran[u] = true
			r := p.RunUnit(u)
			if r.Missing {
				continue
			}
			res.RefUnits = append(res.RefUnits, u)
			c := p.contracts.Funcs[u]
			if len(r.CErrs) > 0 {
				res.Broken = fmt.Sprintf("contract-error in %s: %s", u, strings.Join(r.CErrs, "; "))
			}
			for k := range r.Exec.byContr {
				res.Assumed[k] = true
			}
			for k := range r.Exec.intrUsed {
				res.Trusted[k] = true
			}
			for k := range r.Exec.inlined {
				res.Inlined[k] = true
			}
			for k := range r.Exec.unspec {
				res.Unspec[k] = true
			}
			for k := range r.Exec.noInvLoops {
				res.NoInv[k] = true
			}
			for _, o := range r.Obls {
				if o.RefinesKey != "" || o.Kind == "invariant" {
					unitOf[o] = c
					obls = append(obls, o)
				}
			}
		}
	}
	for _, o := range obls {
		if o.Exec != nil {
			collect(o.Exec)
		}
	}
	// lemmas
	lobls := p.lemmaObligations(prop)
	res.Lemmas = len(lobls)
	obls = append(obls, lobls...)
	// static checks (e.g. metric names): produce pre-decided obligations
	sobls, snotes := p.staticObligations(prop)
	obls = append(obls, sobls...)
	res.Statics = snotes

	// obligations that are attempted but not claimed (tryensures)
	var tries []*Obl
	{
		var keep []*Obl
		for _, o := range obls {
			if o.Try {
				if tier == "thorough" {
					tries = append(tries, o)
				}
				continue
			}
			keep = append(keep, o)
		}
		obls = keep
	}
	// obligations that only carry assumed-* labels restate an assumption at the
	// place where it is used (a call-site precondition, the preservation of an
	// assumed invariant): they are listed in the evidence, not attempted
	{
		var keep []*Obl
		nAssumed := 0
		for _, o := range obls {
			onlyAssumed := len(o.Labels) > 0
			for _, l := range o.Labels {
				if !strings.HasPrefix(l, "assumed-") {
					onlyAssumed = false
				}
			}
			if onlyAssumed && o.Expect != "sat" {
				nAssumed++
				continue
			}
			keep = append(keep, o)
		}
		obls = keep
		if nAssumed > 0 {
			res.Extra["assumed_obligations_not_attempted"] = nAssumed
		}
	}
	work := filepath.Join(outDir, "work", prop+"-"+tier)
	os.RemoveAll(work)
	tSolve := time.Now()
	SolveAll(obls, work, timeout, all)
	if os.Getenv("WALVC_PROF") != "" {
		fmt.Fprintf(os.Stderr, "prof: first SolveAll %.1fs for %d obligations\n", time.Since(tSolve).Seconds(), len(obls))
	}
	// robustness: an obligation that timed out under load is retried alone
	// with all back ends and a longer timeout before it counts as failed
	var retry []*Obl
	for _, o := range obls {
		if o.Expect != "sat" && o.Kind != "deadprobe" && (o.Status == "unknown" || o.Status == "cover-unknown") {
			o.Status = ""
			retry = append(retry, o)
		}
	}
	if len(retry) > 0 {
		res.Extra["retried_after_timeout"] = len(retry)
		var rn []string
		// retry with little parallelism (3 at a time); with very many timeouts
		// (a proof that lost its support) only the first dozen are retried
		batch := retry
		if len(batch) > 12 {
			for _, o := range batch[12:] {
				o.Status = "unknown"
			}
			batch = batch[:12]
		}
		for i := 0; i < len(batch); i += 3 {
			j := i + 3
			if j > len(batch) {
				j = len(batch)
			}
			SolveAll(batch[i:j], work, timeout*3, false)
		}
		for _, o := range batch {
			rn = append(rn, fmt.Sprintf("%s [%s] -> %s (%s, %d ms)", o.Name, o.Path, o.Status, o.Backend, o.Ms))
		}
		res.Extra["retried"] = rn
	}
	if tier == "thorough" {
		conf, unconf, dis := crossCheck(obls, work)
		res.Extra["second_solver"] = fmt.Sprintf("%d proved obligations confirmed by a solver of the other family (z3 <-> cvc5, 20 s), %d not decided by it within the limit, %d disagreements", conf, unconf, dis)
	}
	if len(tries) > 0 {
		SolveAll(tries, work, timeout, false)
		var ts []string
		for _, o := range tries {
			ts = append(ts, fmt.Sprintf("%s: %s (%s, %d ms)", o.Name, o.Status, o.Backend, o.Ms))
		}
		res.Extra["attempted_not_claimed"] = ts
	}
	os.RemoveAll(work)

	findings := loadFindings(filepath.Join(verifDir, "known_findings.txt"))
	// group covers
	coverOK := map[string]bool{}
	coverSeen := map[string]bool{}
	for _, o := range obls {
		if o.Expect == "sat" {
			coverSeen[o.Name] = true
			if o.Status == "covered" {
				coverOK[o.Name] = true
			}
		}
	}
	// dead-path probes: returns that are reachable only if quantified
	// assumptions are ignored do not count as reachable
	deadPath := map[string]bool{} // cover name + path
	obls0 := obls
	aliveUnit := map[string]bool{}
	probedUnit := map[string]bool{}
	{
		var keep []*Obl
		for _, o := range obls {
			if o.Kind != "deadprobe" {
				keep = append(keep, o)
				continue
			}
			if o.Status == "skipped" {
				aliveUnit[o.Unit] = true
				continue
			}
			probedUnit[o.Unit] = true
			if o.Status == "dead" {
				deadPath[o.Name+"@"+o.Path] = true
				res.DeadReturns = append(res.DeadReturns, o.Name+" path="+o.Path)
			} else {
				aliveUnit[o.Unit] = true
			}
		}
		obls = keep
	}
	probedPath := map[string]bool{}
	for _, o := range obls0 {
		if o.Kind == "deadprobe" {
			probedPath[o.Unit+"@"+o.Path] = true
		}
	}
	for _, o := range obls0 {
		if o.Kind == "cover" && o.Status == "covered" && strings.Contains(o.Name, "/cover:return") && !probedPath[o.Unit+"@"+o.Path] {
			aliveUnit[o.Unit] = true // quantifier-free path: the cover is exact
		}
	}
	for u := range probedUnit {
		if !aliveUnit[u] {
			res.Broken = "vacuous: every return of " + u + " is dead under its assumptions"
		}
	}
	unitReturnCovered := map[string]bool{}
	for n := range coverSeen {
		i := strings.Index(n, "/cover:")
		unit := n[:i]
		if strings.HasSuffix(n, "/cover:requires-satisfiable") {
			if !coverOK[n] {
				res.Broken = "vacuous precondition: " + n
			}
			continue
		}
		if coverOK[n] {
			unitReturnCovered[unit] = true
		} else {
			res.DeadReturns = append(res.DeadReturns, n)
		}
	}
	for _, u := range units {
		if fn := p.funcs[u]; fn != nil && !unitReturnCovered[u] {
			// a unit none of whose returns is reachable under its precondition is vacuous
			hasRet := false
			for n := range coverSeen {
				if strings.HasPrefix(n, u+"/cover:return") {
					hasRet = true
				}
			}
			if hasRet {
				res.Broken = "no reachable return in " + u
			}
		}
	}
	sort.Strings(res.DeadReturns)
	reported := map[string]bool{}
	for _, o := range obls {
		if o.Expect == "sat" {
			continue
		}
		c := unitOf[o]
		if !relevant(o, c, prop) && o.Status != "proved" {
			// failure belongs to another property's check
			continue
		}
		if !relevant(o, c, prop) {
			// proved obligation labelled for another property only: still supports this unit; count it
		}
		res.NObl++
		if o.Backend != "" {
			res.Backends[o.Backend]++
		}
		res.SolverMs += o.Ms
		if o.Status == "proved" {
			res.NDischarged++
			if len(res.Samples) < 12 && o.Backend != "syntactic" && (len(o.Labels) > 0 || len(res.Samples) < 4) {
				res.Samples = append(res.Samples, sample{o.Name, o.Kind, o.Status, o.Backend, o.Ms, len(o.Query), o.Where})
			}
			continue
		}
		// failed: known finding?
		known := false
		for _, f := range findings {
			if f.Kind == "finding" && f.Property == prop && f.Obligation == o.Name && (f.Site == "" || f.Site == o.Site) {
				known = true
				res.NObl-- // not claimed
				key := f.Obligation + "@" + f.Site
				if !reported[key] {
					reported[key] = true
					res.NKnown++
					res.KnownHit = append(res.KnownHit, f.Obligation+" "+f.Site)
					res.Lines = append(res.Lines, fmt.Sprintf("KNOWN-FINDING: property=%s %s %s -- %s", prop, f.Obligation, f.Site, f.Text))
				}
				break
			}
		}
		if known {
			continue
		}
		if len(res.Stale) > 0 && o.Status != "refuted" {
			// a contract no longer fits the code (refactoring): an obligation
			// that merely cannot be proved any more is undecided, not a violation
			res.NObl--
			res.NUndecided++
			res.Lines = append(res.Lines, fmt.Sprintf("UNDECIDED stale-contract: %s (%s)", o.Name, o.Status))
			continue
		}
		res.Failed = append(res.Failed, o)
		key := o.Name + "@" + o.Site
		if reported[key] {
			continue
		}
		reported[key] = true
		res.NViol++
		path, confirmed := p.replay(o, prop)
		line := fmt.Sprintf("VIOLATION property=%s replay=%s", prop, path)
		if !confirmed {
			line += " no-failing-input-found"
		}
		res.Lines = append(res.Lines, line)
		res.Lines = append(res.Lines, fmt.Sprintf("  failed obligation: %s (%s, %s) at %s", o.Name, o.Status, o.Backend, o.Where))
	}
	// outcome of the refinement obligations per interface contract
	refTotal := map[string]int{}
	refProved := map[string]int{}
	refBy := map[string]map[string]bool{}
	for _, o := range obls {
		if o.RefinesKey == "" || o.Expect == "sat" {
			continue
		}
		refTotal[o.RefinesKey]++
		if o.Status == "proved" {
			refProved[o.RefinesKey]++
		}
		if refBy[o.RefinesKey] == nil {
			refBy[o.RefinesKey] = map[string]bool{}
		}
		refBy[o.RefinesKey][o.Unit] = true
	}
	res.Extra["refinement_obligations"] = refTotal
	linked := map[string]string{}
	for k, n := range refTotal {
		if n > 0 && refProved[k] == n {
			linked[k] = strings.Join(keys(refBy[k]), ", ")
		}
	}
	res.Extra["__linked"] = linked
	res.Extra["__gaps"] = refGaps
	for _, k := range keys(res.Stale) {
		res.Lines = append(res.Lines, "NOTE stale-contract: "+k)
	}
	for k := range res.OutOfSubset {
		res.Lines = append(res.Lines, "UNDECIDED out-of-subset "+k)
		res.NUndecided++
	}
	if res.NObl == 0 && res.NViol == 0 {
		res.Broken = "no obligations generated for " + prop
	}
	return res
}

func keys(m map[string]bool) []string {
	ks := []string{}
	for k := range m {
		ks = append(ks, k)
	}
	sort.Strings(ks)
	return ks
}

func (r *CheckResult) writeEvidence() {
	trusted := []string{
		"go/types + go/ssa front end (golang.org/x/tools v0.29.0, vendored) producing the SSA that is symbolically executed",
		"walvc VC generator (/verif/vc): encoding of Go semantics into SMT-LIB (machine integers as bit-vectors, slices as arrays+base/len/cap)",
		"SMT solvers z3 4.8.12, z3-new 5.1.0, cvc5 1.0 (first definitive answer wins; the thorough tier re-decides every proved obligation with a solver of the other family)",
	}
	for _, k := range keys(r.Trusted) {
		trusted = append(trusted, "assumed dependency contract (intrinsic): "+k)
	}
	assumptions := []string{
		"sequential semantics: goroutines, mutexes and channel blocking are not modelled; sync/atomic operations are sequentially consistent loads/stores",
		"no aliasing between distinct pointer/slice parameters or between distinct heap fields in the pre-state; slices returned across a contract boundary are treated as fresh regions whose contents above len() are never relied upon",
		"pre-state slices are shorter than 2^40 elements; machine integers are exact fixed-width bit-vectors (nothing is treated as mathematical)",
		"package-level error sentinels are never reassigned; package-level variables that no repository code stores to keep their zero value",
		"partial correctness unless a `decreases` clause is listed for the loop",
	}
	for _, k := range keys(r.Unspec) {
		assumptions = append(assumptions, "call without contract or body treated as pure with an arbitrary result: "+k)
	}
	for _, k := range keys(r.NoInv) {
		assumptions = append(assumptions, "loop without invariant (treated with invariant `true`): "+k)
	}
	for _, a := range propertyAssumptions[r.Prop] {
		assumptions = append(assumptions, a)
	}
	// contracts that are assumed rather than proved in this repository:
	// interface-level contracts, and every clause explicitly labelled assumed-*
	if r.prog != nil {
		for _, k := range keys(r.Assumed) {
			ct := r.prog.contracts.Funcs[strings.TrimSuffix(k, " (callback invariant)")]
			if ct == nil {
				continue
			}
			if ct.IsIface {
				linked, _ := r.Extra["__linked"].(map[string]string)
				gaps, _ := r.Extra["__gaps"].(map[string]int)
				if by, ok := linked[k]; ok && gaps[k] > 0 {
					assumptions = append(assumptions, fmt.Sprintf("interface contract assumed for every implementation; its link to the repository's implementation is PARTLY proved in this run (refinement obligations of %s; %d clause(s) mention ghost state without a coupling and stay linked by reading, see coverage.refinement_notes): %s", by, gaps[k], k))
				} else if ok {
					assumptions = append(assumptions, "interface contract used at call sites; its link to the repository's implementation is PROVED in this run (refinement obligations of "+by+" under the coupling definitions listed in coverage.couplings; clauses labelled assumed-* excepted): "+k)
				} else if len(r.RefOf[k]) > 0 {
					assumptions = append(assumptions, "interface contract assumed for every implementation (a refinement by "+strings.Join(r.RefOf[k], ", ")+" is declared but not fully discharged in this run): "+k)
				} else {
					assumptions = append(assumptions, "interface contract assumed for every implementation (linked to the repository's implementation by reading, see the comment at the contract): "+k)
				}
			}
			if ct.Trusted != "" {
				assumptions = append(assumptions, "trusted contract (body not verified): "+k+" -- "+ct.Trusted)
			}
			for _, cl := range append(append([]*Clause(nil), ct.Ensures...), ct.Requires...) {
				for _, l := range cl.Labels {
					if strings.HasPrefix(l, "assumed-") {
						assumptions = append(assumptions, fmt.Sprintf("[%s] %s of %s: %s", l, cl.Kind, k, cl.Src))
					}
				}
			}
		}
		for _, u := range r.Units {
			if ct := r.prog.contracts.Funcs[u]; ct != nil {
				for _, cl := range ct.Requires {
					for _, l := range cl.Labels {
						if strings.HasPrefix(l, "assumed-") {
							assumptions = append(assumptions, fmt.Sprintf("[%s] precondition of %s: %s", l, u, cl.Src))
						}
					}
				}
				for n, invs := range ct.Invs {
					for _, cl := range invs {
						for _, l := range cl.Labels {
							if strings.HasPrefix(l, "assumed-") {
								assumptions = append(assumptions, fmt.Sprintf("[%s] loop %d invariant of %s (assumed, not proved): %s", l, n, u, cl.Src))
							}
						}
					}
				}
			}
		}
	}
	cov := map[string]interface{}{
		"obligations":               r.NObl,
		"discharged":                r.NDischarged,
		"checker_cmd":               fmt.Sprintf("/verif/bin/walvc check --property %s --tier %s", r.Prop, r.Tier),
		"trusted_base":              trusted,
		"functions_under_contract":  r.Units,
		"callee_contracts_used":     keys(r.Assumed),
		"inlined_callees":           keys(r.Inlined),
		"trivial_safety_checks":     r.NTrivial,
		"paths_ended_by_literal_false_assumption": r.NAssumedFalse,
		"backends":                  r.Backends,
		"solver_ms_total":           r.SolverMs,
		"bounded":                   keys(r.Bounded),
		"out_of_subset":             keys(r.OutOfSubset),
		"known_findings_hit":        r.KnownHit,
		"stale_contracts":           keys(r.Stale),
		"callee_internal_ensures_not_assumed": keys(r.Skipped),
		"unreachable_returns":       r.DeadReturns,
		"lemmas":                    r.Lemmas,
		"static_checks":             r.Statics,
		"samples":                   r.Samples,
		"integers":                  "64/32/16/8-bit bit-vectors with Go wrap-around semantics",
		"contract_files":            "comment-only //@ clauses in /repo/<pkg>/contracts_verif.go (build tag verif)",
	}
	cov["refinement_units"] = r.RefUnits
	cov["couplings"] = keys(r.Couplings)
	cov["refinement_notes"] = keys(r.RefNotes)
	for k, v := range r.Extra {
		if strings.HasPrefix(k, "__") {
			continue
		}
		cov[k] = v
	}
	if len(r.Samples) == 0 {
		cov["samples"] = []string{"(no solver-discharged obligation in this run)"}
	}
	ev := map[string]interface{}{
		"property_id": r.Prop,
		"tier":        r.Tier,
		"seed":        r.Seed,
		"level":       "proof",
		"coverage":    cov,
		"assumptions": assumptions,
		"wall_s":      r.WallS,
		"violations":  r.NViol,
	}
	os.MkdirAll(filepath.Join(outDir, "evidence"), 0755)
	data, _ := json.MarshalIndent(ev, "", " ")
	os.WriteFile(filepath.Join(outDir, "evidence", r.Prop+".json"), data, 0644)
}

// propertyAssumptions: paper arguments / uncovered conjuncts per property
// (repeated in every evidence file).
var propertyAssumptions = map[string][]string{}

// replay writes the replay artefact of a failed obligation and tries to
// reproduce the failure on the real code.
func (p *Prog) replay(o *Obl, prop string) (string, bool) {
	dir := filepath.Join(outDir, "replays")
	os.MkdirAll(dir, 0755)
	base := sanitize(strings.NewReplacer("/", "_", "(", "", ")", "", "*", "", "[", "_", "]", "", ",", "_", ":", "_").Replace(o.Name))
	if os.Getenv("WALVC_NO_REPLAY") == "" {
		if path, ok := p.tryConcreteReplay(o, prop, dir, base); ok {
			return path, true
		}
	}
	path := filepath.Join(dir, base+".txt")
	var b strings.Builder
	fmt.Fprintf(&b, "failed obligation: %s\nproperty: %s\nkind: %s\nstatus: %s (backend %s, %d ms)\nwhere: %s\npath: %s\n", o.Name, prop, o.Kind, o.Status, o.Backend, o.Ms, o.Where, o.Path)
	fmt.Fprintf(&b, "\nThis obligation is discharged on the pinned tree and no longer is.\n")
	fmt.Fprintf(&b, "\n--- solver output / model ---\n%s\n", o.Model)
	fmt.Fprintf(&b, "\n--- SMT-LIB query (unsat = obligation holds) ---\n%s\n", o.Query)
	os.WriteFile(path, []byte(b.String()), 0644)
	return path, false
}


// loadAverage is the 1-minute load average (0 if unavailable).
func loadAverage() float64 {
	b, err := os.ReadFile("/proc/loadavg")
	if err != nil {
		return 0
	}
	var la float64
	fmt.Sscanf(string(b), "%f", &la)
	return la
}


// crossCheck re-decides every proved obligation with a solver of the other
// family. A `sat` answer there is a solver disagreement and fails the obligation.
func crossCheck(obls []*Obl, workDir string) (confirmed, undecided, disagree int) {
	os.MkdirAll(workDir, 0755)
	var mu sync.Mutex
	var wg sync.WaitGroup
	sem := make(chan struct{}, 12)
	for i, o := range obls {
		if o.Status != "proved" || o.Query == "" || o.Kind == "deadprobe" || o.Kind == "lemma-file" {
			continue
		}
		wg.Add(1)
		sem <- struct{}{}
		go func(i int, o *Obl) {
			defer wg.Done()
			defer func() { <-sem }()
			f := filepath.Join(workDir, fmt.Sprintf("x%05d.smt2", i))
			os.WriteFile(f, []byte(o.Query), 0644)
			defer os.Remove(f)
			var cmd *exec.Cmd
			if strings.HasPrefix(o.Backend, "cvc5") {
				cmd = exec.Command("z3-new", "-T:20", f)
			} else {
				cmd = exec.Command("cvc5", "--full-saturate-quant", "--tlimit=20000", f)
			}
			procSlots <- struct{}{}
			out, _ := cmd.CombinedOutput()
			<-procSlots
			first := strings.TrimSpace(strings.SplitN(string(out), "\n", 2)[0])
			mu.Lock()
			defer mu.Unlock()
			switch first {
			case "unsat":
				confirmed++
			case "sat":
				disagree++
				o.Status = "solver-disagreement"
				o.Model = "proved by " + o.Backend + ", refuted by the other solver family"
			default:
				undecided++
			}
		}(i, o)
	}
	wg.Wait()
	return
}
