package main

// Symbolic values, objects, regions and path state.

import (
	"fmt"
	"go/types"
	"strings"

	"golang.org/x/tools/go/ssa"
)

type Value interface{}

type VInt struct {
	T       T
	Signed  bool
	Untyped bool // untyped constant of the contract language
}
type VBool struct{ T T }

// VErr is a value of type error: BV32 code, 0 = nil.
type VErr struct{ T T }

// VStr is a string: BV32 identity; Lit set for constants.
type VStr struct {
	T   T
	Lit *string
}

// VStruct is a struct value. F[i]==nil means "not materialised": its value is
// the initial symbolic value named Key+"."+field.
type VStruct struct {
	Typ types.Type // the (possibly named) struct type
	F   []Value
	Key string // non-empty for lazily materialised structs
}

// VPtr is a pointer: Nil flag and target location.
type VPtr struct {
	Nil  T
	Loc  *Loc
	Elem types.Type
}

// Loc is an abstract address.
type Loc struct {
	Obj  *Object // object root (when Reg == nil)
	Reg  *Region // element of a region
	Idx  T       // element index (absolute within region) when Reg != nil
	Path []int   // struct field path below the root / element
}

func (l *Loc) String() string {
	var b strings.Builder
	if l.Reg != nil {
		fmt.Fprintf(&b, "%s[%s]", l.Reg.Name, l.Idx.S)
	} else {
		b.WriteString(l.Obj.Name)
	}
	for _, p := range l.Path {
		fmt.Fprintf(&b, ".%d", p)
	}
	return b.String()
}

func (l *Loc) field(i int) *Loc {
	np := make([]int, len(l.Path)+1)
	copy(np, l.Path)
	np[len(l.Path)] = i
	return &Loc{Obj: l.Obj, Reg: l.Reg, Idx: l.Idx, Path: np}
}

// Object is an allocation unit (struct/scalar cell, or abstract interface object).
type Object struct {
	ID   int
	Name string
	Typ  types.Type
	Lazy bool // content initially symbolic (materialised by name)
	ZeroInit bool // package-level variable that is never stored to
}

// Region is a sequence of elements (backing array of slices, or a Go array).
type Region struct {
	ID   int
	Name string
	Elem types.Type
	// Init, when set, is the initial content (scalar elements only).
	Init *T
	// ReadOnlyDerived marks regions derived from an element family.
	Derived bool
}

type VSlice struct {
	Nil  T
	Reg  *Region // may be nil for the nil slice
	Base T       // BV64 index of element 0 within region
	Len  T       // BV64 (signed int)
	Cap  T
	Elem types.Type
}

// VArr is a Go array value stored in place (content is a region).
type VArr struct {
	Reg *Region
	N   int64
}

// VIface is a non-error interface value.
type VIface struct {
	Nil T
	Dyn types.Type // known dynamic type, or nil
	Val Value      // concrete value when Dyn known
	Obj *Object    // abstract object (ghost state carrier) when Dyn unknown
	Typ types.Type
}

// VFunc is a function value.
type VFunc struct {
	Fn       *ssa.Function
	Bindings []Value
	Nil      T
	Abstract string // name of abstract function value when Fn == nil
	Typ      types.Type
	// Contract/GhostArgs: function contract this (abstract) value is known to
	// satisfy, with the values its ghost-bound parameters stand for
	Contract  string
	GhostArgs []Value
}

type VMap struct {
	Obj *Object
	Nil T
}
type VChan struct {
	Obj *Object
	Nil T
}
type VTuple struct{ E []Value }

// VOpaque is an uninterpreted scalar (e.g. time.Time) carried as a BV64.
type VOpaque struct {
	T   T
	Typ types.Type
}

// ---------------------------------------------------------------------------

func sanitize(s string) string {
	var b strings.Builder
	for _, c := range s {
		switch {
		case c >= 'a' && c <= 'z', c >= 'A' && c <= 'Z', c >= '0' && c <= '9':
			b.WriteRune(c)
		case strings.ContainsRune("~!@$%^&*_-+=<>.?/", c):
			b.WriteRune(c)
		default:
			b.WriteByte('_')
		}
	}
	return b.String()
}

func isErrorType(t types.Type) bool {
	if n, ok := t.(*types.Named); ok {
		return n.Obj().Pkg() == nil && n.Obj().Name() == "error"
	}
	return false
}

func isTimeType(t types.Type) bool {
	if n, ok := t.(*types.Named); ok {
		return n.Obj().Pkg() != nil && n.Obj().Pkg().Path() == "time" && n.Obj().Name() == "Time"
	}
	return false
}

func isOpaqueStructType(t types.Type) bool {
	n, ok := t.(*types.Named)
	if !ok || n.Obj().Pkg() == nil {
		return false
	}
	p := n.Obj().Pkg().Path() + "." + n.Obj().Name()
	switch p {
	case "time.Time", "sync.Mutex", "sync.RWMutex", "sync.Pool", "sync.WaitGroup", "sync.Once",
		"bytes.Buffer", "os.File":
		return true
	}
	return false
}

func intInfo(t types.Type) (w int, signed bool, ok bool) {
	b, isB := t.Underlying().(*types.Basic)
	if !isB {
		return 0, false, false
	}
	switch b.Kind() {
	case types.Int8:
		return 8, true, true
	case types.Int16:
		return 16, true, true
	case types.Int32:
		return 32, true, true
	case types.Int64, types.Int, types.UntypedInt, types.UntypedRune:
		return 64, true, true
	case types.Uint8:
		return 8, false, true
	case types.Uint16:
		return 16, false, true
	case types.Uint32:
		return 32, false, true
	case types.Uint64, types.Uint, types.Uintptr:
		return 64, false, true
	}
	return 0, false, false
}

func isBoolType(t types.Type) bool {
	b, ok := t.Underlying().(*types.Basic)
	return ok && (b.Kind() == types.Bool || b.Kind() == types.UntypedBool)
}

func isStringType(t types.Type) bool {
	b, ok := t.Underlying().(*types.Basic)
	return ok && (b.Kind() == types.String || b.Kind() == types.UntypedString)
}

func isFloatType(t types.Type) bool {
	b, ok := t.Underlying().(*types.Basic)
	return ok && (b.Info()&types.IsFloat != 0)
}

// elemSort returns the SMT sort of a scalar element type (for region arrays).
func elemSort(t types.Type) (Sort, bool) {
	if w, _, ok := intInfo(t); ok {
		return BVSort(w), true
	}
	if isBoolType(t) {
		return BoolSort, true
	}
	if isErrorType(t) || isStringType(t) {
		return BV32, true
	}
	if isTimeType(t) {
		return BV64, true
	}
	return Sort{}, false
}

// ---------------------------------------------------------------------------
// Path state

type Deferred struct {
	Fn   Value // VFunc
	Args []Value
	Call *ssa.CallCommon
}

type Frame struct {
	Fn     *ssa.Function
	Vals   map[ssa.Value]Value
	Block  *ssa.BasicBlock
	Prev   *ssa.BasicBlock
	PC     int
	Defers []Deferred
	// where the result goes in the caller frame
	RetInstr ssa.Value
	// RunDefers continuation: when a deferred call returns, resume at the
	// same RunDefers instruction.
	IsDefer bool
	Params []Value
	Names  map[string]NameRef // source-level names (from DebugRef)
}

// NameRef binds a source identifier to an SSA value (or to the address of
// its cell when IsAddr).
type NameRef struct {
	V      ssa.Value
	IsAddr bool
}

func (f *Frame) clone() *Frame {
	nf := *f
	nf.Vals = make(map[ssa.Value]Value, len(f.Vals)+8)
	for k, v := range f.Vals {
		nf.Vals[k] = v
	}
	nf.Defers = append([]Deferred(nil), f.Defers...)
	if f.Names != nil {
		nf.Names = make(map[string]NameRef, len(f.Names))
		for k, v := range f.Names {
			nf.Names[k] = v
		}
	}
	return &nf
}

type State struct {
	PC     []T
	Frames []*Frame
	Objs   map[*Object]Value
	Mem    map[*Region]map[string]T
	Ghost  map[string]Value // ghost variables: "<objname>#field" or global name
	Trace  []string         // ghost event trace (ordered), for event-order contracts
	Writes map[string]bool  // write log (for loop frame inference)
	Dry      bool
	DryLoop  *LoopInfo
	DryDepth int
	Dead     bool // path ended inside a simple instruction (e.g. definite panic)
	AssumedFalse bool
	Infeasible   bool // ended because a condition and its negation were both assumed
	Effects  []string
	ForkRes  Value
	pendingForks       []*State
	pendingSimpleForks []*State
	PathID   string
	// loop bookkeeping: inside a loop after havoc
	InLoop   map[loopKey]*LoopCtx
	Unrolled map[loopKey]int
	Notes    []string
}

type LoopCtx struct {
	DecrEntry *T // value of decreases measure at loop head
}

func (s *State) clone() *State {
	ns := &State{
		PC:     append([]T(nil), s.PC...),
		Objs:   make(map[*Object]Value, len(s.Objs)+4),
		Mem:    make(map[*Region]map[string]T, len(s.Mem)+4),
		Ghost:  make(map[string]Value, len(s.Ghost)+4),
		Trace:  append([]string(nil), s.Trace...),
		Effects: append([]string(nil), s.Effects...),
		Writes: make(map[string]bool, len(s.Writes)),
		Dry:    s.Dry, DryLoop: s.DryLoop, DryDepth: s.DryDepth,
		PathID: s.PathID,
		InLoop: make(map[loopKey]*LoopCtx, len(s.InLoop)),
		Notes:  append([]string(nil), s.Notes...),
	}
	for _, f := range s.Frames {
		ns.Frames = append(ns.Frames, f.clone())
	}
	for k, v := range s.Objs {
		ns.Objs[k] = v
	}
	for k, v := range s.Mem {
		m := make(map[string]T, len(v))
		for kk, vv := range v {
			m[kk] = vv
		}
		ns.Mem[k] = m
	}
	for k, v := range s.Ghost {
		ns.Ghost[k] = v
	}
	for k, v := range s.Writes {
		ns.Writes[k] = v
	}
	for k, v := range s.InLoop {
		ns.InLoop[k] = v
	}
	if s.Unrolled != nil {
		ns.Unrolled = make(map[loopKey]int, len(s.Unrolled))
		for k, v := range s.Unrolled {
			ns.Unrolled[k] = v
		}
	}
	return ns
}

func (s *State) top() *Frame { return s.Frames[len(s.Frames)-1] }

func (s *State) assume(t T) {
	if t.Const && t.V == 1 {
		return
	}
	if t.Const && t.V == 0 {
		// assuming a literal false: the path is infeasible; it is ended and
		// counted (a vacuity guard reports such paths)
		s.Dead = true
		s.AssumedFalse = true
	}
	// a condition that is literally the negation of one already assumed (the
	// same test taken both ways, e.g. an inlined callee returned a non-nil
	// error and the caller's `err != nil` test is then assumed false): the
	// path is infeasible and is ended
	neg := Not(t).S
	for _, c := range s.PC {
		if c.S == neg {
			s.Dead = true
			s.Infeasible = true
			break
		}
	}
	s.PC = append(s.PC, t)
}
