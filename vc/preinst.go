package main

// Pre-instantiation of quantified assumptions ("poor man's E-matching"): a
// sound weakening that turns a quantified query into a quantifier-free one.
// Every positive `forall` in an assertion is replaced by the conjunction of
// its instances for all syntactic matches of its pattern against the ground
// terms of the query (a few rounds). If the weakened query is unsat, so is the
// original. It is run as an additional portfolio member.

import (
	"sort"
	"strings"
)

type sx struct {
	atom string
	list []*sx
	str  string
}

func (n *sx) String() string {
	if n.str != "" {
		return n.str
	}
	if n.list == nil {
		n.str = n.atom
		return n.str
	}
	var b strings.Builder
	b.WriteByte('(')
	for i, c := range n.list {
		if i > 0 {
			b.WriteByte(' ')
		}
		b.WriteString(c.String())
	}
	b.WriteByte(')')
	n.str = b.String()
	return n.str
}

func parseSx(s string) []*sx {
	var out []*sx
	var stack [][]*sx
	var cur []*sx
	i := 0
	for i < len(s) {
		c := s[i]
		switch {
		case c == ';':
			for i < len(s) && s[i] != '\n' {
				i++
			}
		case c == '(':
			stack = append(stack, cur)
			cur = []*sx{}
			i++
		case c == ')':
			n := &sx{list: cur}
			if n.list == nil {
				n.list = []*sx{}
			}
			cur = stack[len(stack)-1]
			stack = stack[:len(stack)-1]
			cur = append(cur, n)
			if len(stack) == 0 {
				out = append(out, cur...)
				cur = nil
			}
			i++
		case c == ' ' || c == '\n' || c == '\t' || c == '\r':
			i++
		case c == '|':
			j := i + 1
			for j < len(s) && s[j] != '|' {
				j++
			}
			cur = append(cur, &sx{atom: s[i : j+1]})
			i = j + 1
		default:
			j := i
			for j < len(s) && !strings.ContainsRune("() \n\t\r", rune(s[j])) {
				j++
			}
			cur = append(cur, &sx{atom: s[i:j]})
			i = j
		}
	}
	return out
}

func (n *sx) isList() bool { return n.list != nil }
func (n *sx) head() string {
	if n.isList() && len(n.list) > 0 && !n.list[0].isList() {
		return n.list[0].atom
	}
	return ""
}

type quantInfo struct {
	binders []string
	sorts   map[string]string
	body    *sx
	pats    [][]*sx // alternatives of multi-patterns
	seen    map[string]bool
	insts   []*sx
}

type preinst struct {
	bound  map[string]bool
	quants map[*sx]*quantInfo
	pool   map[string]map[string]*sx // head -> string -> term
}

func (p *preinst) collectQuants(n *sx) {
	if !n.isList() {
		return
	}
	if n.head() == "forall" && len(n.list) == 3 {
		qi := &quantInfo{sorts: map[string]string{}, seen: map[string]bool{}}
		for _, b := range n.list[1].list {
			name := b.list[0].atom
			qi.binders = append(qi.binders, name)
			qi.sorts[name] = b.list[1].String()
			p.bound[name] = true
		}
		body := n.list[2]
		if body.head() == "!" {
			// (! body :pattern (p1 p2) :pattern (...))
			qi.body = body.list[1]
			for i := 2; i+1 < len(body.list); i += 2 {
				if body.list[i].atom == ":pattern" {
					qi.pats = append(qi.pats, body.list[i+1].list)
				}
			}
		} else {
			qi.body = body
		}
		if len(qi.pats) == 0 {
			qi.pats = p.inferPatterns(qi)
		}
		p.quants[n] = qi
		p.collectQuants(qi.body)
		return
	}
	for _, c := range n.list {
		p.collectQuants(c)
	}
}

// inferPatterns picks array reads indexed by the bound variables as patterns.
func (p *preinst) inferPatterns(qi *quantInfo) [][]*sx {
	vars := map[string]bool{}
	for _, b := range qi.binders {
		vars[b] = true
	}
	var pats [][]*sx
	seen := map[string]bool{}
	var mentions func(n *sx, found map[string]bool)
	mentions = func(n *sx, found map[string]bool) {
		if !n.isList() {
			if vars[n.atom] {
				found[n.atom] = true
			}
			return
		}
		for _, c := range n.list {
			mentions(c, found)
		}
	}
	var walk func(n *sx)
	walk = func(n *sx) {
		if !n.isList() {
			return
		}
		if n.head() == "forall" {
			return
		}
		if n.head() == "select" && len(n.list) == 3 {
			f := map[string]bool{}
			mentions(n, f)
			if len(f) == len(qi.binders) && !seen[n.String()] {
				seen[n.String()] = true
				pats = append(pats, []*sx{n})
			}
		}
		for _, c := range n.list {
			walk(c)
		}
	}
	walk(qi.body)
	return pats
}

// ground reports whether a term mentions no bound variable.
func (p *preinst) ground(n *sx) bool {
	if !n.isList() {
		return !p.bound[n.atom]
	}
	for _, c := range n.list {
		if !p.ground(c) {
			return false
		}
	}
	return true
}

func (p *preinst) addPool(n *sx) {
	if !n.isList() {
		return
	}
	if n.head() == "forall" {
		// terms inside quantifier bodies are added only if ground
		if qi := p.quants[n]; qi != nil {
			p.addPool(qi.body)
		}
		return
	}
	for _, c := range n.list {
		p.addPool(c)
	}
	h := n.head()
	if h == "" || h == "!" || h == "let" {
		return
	}
	if !p.ground(n) {
		return
	}
	m := p.pool[h]
	if m == nil {
		m = map[string]*sx{}
		p.pool[h] = m
	}
	m[n.String()] = n
}

// match unifies pattern pat (with binder variables) against ground term t.
func (p *preinst) match(pat, t *sx, vars map[string]bool, sub map[string]*sx) bool {
	if !pat.isList() {
		if vars[pat.atom] {
			if old, ok := sub[pat.atom]; ok {
				return old.String() == t.String()
			}
			sub[pat.atom] = t
			return true
		}
		return !t.isList() && t.atom == pat.atom
	}
	if !t.isList() || len(t.list) != len(pat.list) {
		return false
	}
	for i := range pat.list {
		if !p.match(pat.list[i], t.list[i], vars, sub) {
			return false
		}
	}
	return true
}

func substSx(n *sx, sub map[string]*sx) *sx {
	if !n.isList() {
		if r, ok := sub[n.atom]; ok {
			return r
		}
		return n
	}
	out := &sx{list: make([]*sx, len(n.list))}
	changed := false
	for i, c := range n.list {
		out.list[i] = substSx(c, sub)
		if out.list[i] != c {
			changed = true
		}
	}
	if !changed {
		return n
	}
	return out
}

// instances computes new instances of a quantifier against the pool.
func (p *preinst) instantiate(qi *quantInfo, limit int) int {
	vars := map[string]bool{}
	for _, b := range qi.binders {
		vars[b] = true
	}
	added := 0
	try := func(sub map[string]*sx) {
		if len(sub) != len(qi.binders) || len(qi.insts) >= limit {
			return
		}
		var key strings.Builder
		for _, b := range qi.binders {
			key.WriteString(sub[b].String())
			key.WriteByte('|')
		}
		if qi.seen[key.String()] {
			return
		}
		qi.seen[key.String()] = true
		qi.insts = append(qi.insts, substSx(qi.body, sub))
		added++
	}
	for _, mp := range qi.pats {
		var rec func(i int, sub map[string]*sx)
		rec = func(i int, sub map[string]*sx) {
			if i == len(mp) {
				try(sub)
				return
			}
			pat := mp[i]
			cands := p.pool[pat.head()]
			keys := make([]string, 0, len(cands))
			for k := range cands {
				keys = append(keys, k)
			}
			sort.Strings(keys)
			for _, k := range keys {
				ns := make(map[string]*sx, len(sub)+2)
				for a, b := range sub {
					ns[a] = b
				}
				if p.match(pat, cands[k], vars, ns) {
					rec(i+1, ns)
				}
			}
		}
		rec(0, map[string]*sx{})
	}
	return added
}

// rewrite replaces quantifiers by the conjunction of their instances.
func (p *preinst) rewrite(n *sx) *sx {
	if !n.isList() {
		return n
	}
	if qi, ok := p.quants[n]; ok {
		if len(qi.insts) == 0 {
			return &sx{atom: "true"}
		}
		out := &sx{list: []*sx{{atom: "and"}, {atom: "true"}}}
		for _, in := range qi.insts {
			out.list = append(out.list, p.rewrite(in))
		}
		return out
	}
	if n.head() == "forall" {
		// quantifier that appeared inside an instance of another quantifier
		// (not registered): drop it (weakening)
		return &sx{atom: "true"}
	}
	out := &sx{list: make([]*sx, len(n.list))}
	for i, c := range n.list {
		out.list[i] = p.rewrite(c)
	}
	return out
}

// PreInstantiate returns a quantifier-free weakening of the query, or "" if
// the query has no quantifiers / cannot be processed.
func PreInstantiate(query string, rounds int) string {
	if !strings.Contains(query, "(forall ") {
		return ""
	}
	nodes := parseSx(query)
	p := &preinst{bound: map[string]bool{}, quants: map[*sx]*quantInfo{}, pool: map[string]map[string]*sx{}}
	var asserts []*sx
	for _, n := range nodes {
		if n.head() == "assert" && len(n.list) == 2 {
			asserts = append(asserts, n.list[1])
			p.collectQuants(n.list[1])
		}
	}
	for _, a := range asserts {
		p.addPool(a)
	}
	for r := 0; r < rounds; r++ {
		total := 0
		var qs []*quantInfo
		for _, qi := range p.quants {
			qs = append(qs, qi)
		}
		sort.Slice(qs, func(i, j int) bool { return qs[i].body.String() < qs[j].body.String() })
		for _, qi := range qs {
			before := len(qi.insts)
			total += p.instantiate(qi, 400)
			for _, in := range qi.insts[before:] {
				// register nested quantifiers of the instance and extend the pool
				p.collectQuants(in)
				p.addPool(in)
			}
		}
		if total == 0 {
			break
		}
	}
	var b, tail strings.Builder
	for _, n := range nodes {
		switch n.head() {
		case "assert":
			r := p.rewrite(n.list[1])
			if r.String() == "true" {
				continue
			}
			tail.WriteString("(assert ")
			tail.WriteString(r.String())
			tail.WriteString(")\n")
		case "check-sat", "get-model":
			tail.WriteString(n.String())
			tail.WriteByte('\n')
		default:
			b.WriteString(n.String())
			b.WriteByte('\n')
		}
	}
	b.WriteString(tail.String())
	out := b.String()
	if strings.Contains(out, "(forall ") {
		return ""
	}
	return out
}
