package main

// SMT query generation and the solver portfolio.

import (
	"sync/atomic"
	"sort"
	"bytes"
	"context"
	"fmt"
	"os"
	"os/exec"
	"path/filepath"
	"runtime"
	"strings"
	"sync"
	"time"
)

const crcAxioms = `
(declare-fun crcU ((_ BitVec 32) (Array (_ BitVec 64) (_ BitVec 8)) (_ BitVec 64) (_ BitVec 64)) (_ BitVec 32))
(assert (forall ((c (_ BitVec 32)) (a (Array (_ BitVec 64) (_ BitVec 8))) (lo (_ BitVec 64)) (hi (_ BitVec 64)))
  (! (=> (= lo hi) (= (crcU c a lo hi) c)) :pattern ((crcU c a lo hi)))))
(assert (forall ((c (_ BitVec 32)) (a (Array (_ BitVec 64) (_ BitVec 8))) (lo (_ BitVec 64)) (mid (_ BitVec 64)) (hi (_ BitVec 64)))
  (! (=> (and (bvsle lo mid) (bvsle mid hi))
         (= (crcU (crcU c a lo mid) a mid hi) (crcU c a lo hi)))
     :pattern ((crcU (crcU c a lo mid) a mid hi)))))
(declare-fun crcWit ((Array (_ BitVec 64) (_ BitVec 8)) (_ BitVec 64) (Array (_ BitVec 64) (_ BitVec 8)) (_ BitVec 64) (_ BitVec 64)) (_ BitVec 64))
(assert (forall ((c (_ BitVec 32)) (a (Array (_ BitVec 64) (_ BitVec 8))) (lo (_ BitVec 64)) (hi (_ BitVec 64)) (b (Array (_ BitVec 64) (_ BitVec 8))) (lo2 (_ BitVec 64)) (hi2 (_ BitVec 64)))
  (! (=> (and (= (bvsub hi lo) (bvsub hi2 lo2))
              (=> (and (bvsle #x0000000000000000 (crcWit a lo b lo2 (bvsub hi lo))) (bvslt (crcWit a lo b lo2 (bvsub hi lo)) (bvsub hi lo)))
                  (= (select a (bvadd lo (crcWit a lo b lo2 (bvsub hi lo)))) (select b (bvadd lo2 (crcWit a lo b lo2 (bvsub hi lo)))))))
         (= (crcU c a lo hi) (crcU c b lo2 hi2)))
     :pattern ((crcU c a lo hi) (crcU c b lo2 hi2)))))
`

const unwrapDecl = "(declare-fun unwrap ((_ BitVec 32)) (_ BitVec 32))\n"
const errmsgDecl = "(declare-fun errmsg ((_ BitVec 32)) (_ BitVec 32))\n"
const strlenDecl = "(declare-fun strlen ((_ BitVec 32)) (_ BitVec 64))\n(assert (forall ((s (_ BitVec 32))) (! (and (bvsle #x0000000000000000 (strlen s)) (bvslt (strlen s) #x0000010000000000)) :pattern ((strlen s)))))\n"

// specPreludes maps an uninterpreted symbol to the SMT text that declares and
// axiomatises it; included only when the symbol occurs in the query.
var specPreludes = map[string]string{
	"crcU":   crcAxioms,
	"unwrap": unwrapDecl,
	"strlen": strlenDecl,
	"errmsg": errmsgDecl,
}

var specPreludeOrder = []string{"unwrap", "strlen", "errmsg", "crcU"}

// specPreludeAlias: additional symbols that pull in a prelude.
var specPreludeAlias = map[string]string{}

// BuildQuery renders an obligation as a self-contained SMT-LIB script.
func (o *Obl) BuildQuery() string { return o.buildQuery(false) }

// BuildSlicedQuery keeps only the path-condition conjuncts in the cone of
// influence of the goal (sharing declared symbols transitively). Dropping
// assumptions is a sound weakening for proving; a `sat` answer on the sliced
// query is re-checked on the full one.
func (o *Obl) BuildSlicedQuery() string { return o.buildQuery(true) }

func (o *Obl) buildQuery(slice bool) string {
	if o.RawQuery != "" {
		return o.RawQuery
	}
	e := o.Exec
	var body strings.Builder
	used := map[string]bool{}
	asserts := []string{}
	goal := Not(o.Goal)
	if o.Expect == "sat" {
		goal = True
	}
	if slice && e != nil && o.Expect != "sat" {
		rel := map[string]bool{}
		symbolsIn(goal.S, rel)
		isDecl := func(s string) bool { _, ok := e.decls[s]; return ok }
		syms := make([]map[string]bool, len(o.PC))
		for i, t := range o.PC {
			m := map[string]bool{}
			symbolsIn(t.S, m)
			syms[i] = m
		}
		keep := make([]bool, len(o.PC))
		for changed := true; changed; {
			changed = false
			for i := range o.PC {
				if keep[i] {
					continue
				}
				hit := false
				for s := range syms[i] {
					if rel[s] && isDecl(s) {
						hit = true
						break
					}
				}
				if hit {
					keep[i] = true
					changed = true
					for s := range syms[i] {
						if isDecl(s) {
							rel[s] = true
						}
					}
				}
			}
		}
		// focused attempt: assumptions that came from clauses labelled for
		// other properties only are left out (sound: fewer assumptions)
		if o.Focus {
			for i, t := range o.PC {
				if keep[i] && e.foreignLabels(t.S, o.Labels) {
					keep[i] = false
				}
			}
			// relevance filter (in the style of Meng and Paulson): an assumption is
			// kept if enough of the symbol weight it carries is already relevant to
			// the goal; rare symbols weigh more. Preconditions are always kept.
			freq := map[string]int{}
			for i := range o.PC {
				for sy := range syms[i] {
					if isDecl(sy) {
						freq[sy]++
					}
				}
			}
			w := func(sy string) float64 { return 1.0 / float64(freq[sy]) }
			R := map[string]bool{}
			gs := map[string]bool{}
			symbolsIn(goal.S, gs)
			for sy := range gs {
				if isDecl(sy) {
					R[sy] = true
				}
			}
			sel := make([]bool, len(o.PC))
			for i, t := range o.PC {
				if keep[i] && e.requireTerms[t.S] {
					sel[i] = true
				}
			}
			for round := 0; round < 4; round++ {
				grew := false
				for i, t := range o.PC {
					if !keep[i] || sel[i] {
						continue
					}
					var in, tot float64
					for sy := range syms[i] {
						if !isDecl(sy) {
							continue
						}
						tot += w(sy)
						if R[sy] {
							in += w(sy)
						}
					}
					thr := 0.5
					if !strings.Contains(t.S, "(forall ") {
						thr = 0.2 // ground facts are cheap
					}
					if tot > 0 && in/tot >= thr {
						sel[i] = true
						grew = true
					}
				}
				for i := range o.PC {
					if sel[i] {
						for sy := range syms[i] {
							if isDecl(sy) && !R[sy] && !strings.Contains(o.PC[i].S, "(forall ") {
								R[sy] = true // only ground facts extend the relevant vocabulary
							}
						}
					}
				}
				if !grew {
					break
				}
			}
			for i := range o.PC {
				if keep[i] && !sel[i] {
					keep[i] = false
				}
			}
		}
		for i, t := range o.PC {
			if keep[i] {
				asserts = append(asserts, t.S)
			}
		}
	} else {
		for _, t := range o.PC {
			asserts = append(asserts, t.S)
		}
	}
	asserts = append(asserts, goal.S)
	for _, a := range asserts {
		symbolsIn(a, used)
	}
	// axioms mentioning used symbols (transitively, to a fixpoint)
	var axs []string
	if e != nil {
		included := map[int]bool{}
		for changed := true; changed; {
			changed = false
			for i, ax := range e.axioms {
				if included[i] {
					continue
				}
				syms := map[string]bool{}
				symbolsIn(ax.S, syms)
				hit := false
				for s := range syms {
					if used[s] {
						if _, isDecl := e.decls[s]; isDecl {
							hit = true
							break
						}
					}
				}
				if hit {
					included[i] = true
					changed = true
					for s := range syms {
						used[s] = true
					}
				}
			}
		}
		for i, ax := range e.axioms {
			if included[i] {
				axs = append(axs, ax.S)
			}
		}
	}
	body.WriteString("; obligation: " + o.Name + "\n")
	if o.Where != "" {
		body.WriteString("; where: " + o.Where + "\n")
	}
	body.WriteString("; expect: " + o.Expect + " (unsat = obligation holds; sat = counterexample)\n")
	body.WriteString("(set-option :produce-models true)\n(set-logic ALL)\n")
	for s2, k := range specPreludeAlias {
		if used[s2] {
			used[k] = true
		}
	}
	for _, k := range specPreludeOrder {
		if used[k] {
			if o.Expect == "sat" {
				body.WriteString(declsOnly(specPreludes[k]))
			} else {
				body.WriteString(specPreludes[k])
			}
		}
	}
	for _, k := range extraPreludeOrder {
		if used[k] {
			body.WriteString(extraPreludes[k])
		}
	}
	if e != nil {
		for _, n := range e.declOrder {
			if used[n] {
				fmt.Fprintf(&body, "(declare-const %s %s)\n", n, e.decls[n].String())
			}
		}
	}
	for _, a := range axs {
		if o.Expect == "sat" && strings.Contains(a, "(forall ") {
			continue
		}
		fmt.Fprintf(&body, "(assert %s)\n", a)
	}
	for _, a := range asserts {
		if a == "true" {
			continue
		}
		if o.Expect == "sat" && strings.Contains(a, "(forall ") {
			// reachability covers drop quantified assumptions (solvers cannot
			// build models for them); the cover is then an over-approximation
			body.WriteString("; (quantified assumption omitted in cover query)\n")
			continue
		}
		fmt.Fprintf(&body, "(assert %s)\n", a)
	}
	body.WriteString("(check-sat)\n")
	return body.String()
}

// declsOnly keeps the declare-fun lines of a prelude (cover queries drop axioms).
func declsOnly(p string) string {
	var b strings.Builder
	for _, l := range strings.Split(p, "\n") {
		if strings.HasPrefix(l, "(declare-fun") {
			b.WriteString(l)
			b.WriteByte('\n')
		}
	}
	return b.String()
}

var extraPreludes = map[string]string{}
var extraPreludeOrder = []string{}

type solverSpec struct {
	name string
	args func(file string, timeoutMs int) []string
}

var solvers = []solverSpec{
	{"z3-new", func(f string, ms int) []string {
		return []string{"z3-new", fmt.Sprintf("-T:%d", (ms+999)/1000), f}
	}},
	{"cvc5", func(f string, ms int) []string {
		return []string{"cvc5", "--full-saturate-quant", fmt.Sprintf("--tlimit=%d", ms), f}
	}},
	{"z3", func(f string, ms int) []string {
		return []string{"z3", fmt.Sprintf("-T:%d", (ms+999)/1000), f}
	}},
}

var procSlots = make(chan struct{}, 14)

type solveResult struct {
	status  string // unsat sat unknown
	backend string
	ms      int64
	output  string
	all     map[string]string
}

// runPortfolio runs the solvers staggered; first definitive answer wins.
// preFile, if non-empty, is the pre-instantiated (weakened, quantifier-free)
// variant of the query: an `unsat` answer on it proves the obligation, any
// other answer on it is ignored.
func runPortfolio(file, preFile string, timeoutMs int, all bool) solveResult {
	ctx, cancel := context.WithTimeout(context.Background(), time.Duration(4*timeoutMs+5000)*time.Millisecond)
	defer cancel()
	type ans struct {
		name   string
		status string
		out    string
		ms     int64
	}
	type job struct {
		s    solverSpec
		file string
		pre  bool
	}
	var jobs []job
	jobs = append(jobs, job{solvers[0], file, false})
	if preFile != "" {
		jobs = append(jobs, job{solvers[2], preFile, true})
	}
	jobs = append(jobs, job{solvers[1], file, false}, job{solvers[2], file, false})
	if preFile != "" {
		jobs = append(jobs, job{solvers[0], preFile, true}, job{solvers[1], preFile, true})
	}
	ch := make(chan ans, len(jobs))
	start := time.Now()
	launch := func(j job) {
		go func() {
			// global cap on concurrently running solver processes
			select {
			case procSlots <- struct{}{}:
			case <-ctx.Done():
				ch <- ans{j.s.name, "unknown", "cancelled", 0}
				return
			}
			defer func() { <-procSlots }()
			t0 := time.Now()
			args := j.s.args(j.file, timeoutMs)
			cmd := exec.CommandContext(ctx, args[0], args[1:]...)
			var out bytes.Buffer
			cmd.Stdout = &out
			cmd.Stderr = &out
			cmd.Run()
			first := strings.TrimSpace(strings.SplitN(out.String(), "\n", 2)[0])
			st := "unknown"
			if first == "unsat" || first == "sat" {
				st = first
			}
			name := j.s.name
			if j.pre {
				name += "+preinst"
				if st == "sat" {
					st = "unknown" // weakened query: sat means nothing
				}
			}
			ch <- ans{name, st, out.String(), time.Since(t0).Milliseconds()}
		}()
	}
	res := solveResult{status: "unknown", all: map[string]string{}}
	if all {
		for _, j := range jobs {
			launch(j)
		}
		for range jobs {
			a := <-ch
			res.all[a.name] = a.status
			if a.status != "unknown" && res.status == "unknown" {
				res.status, res.backend, res.ms, res.output = a.status, a.name, a.ms, a.out
			}
			if res.status == "unknown" {
				res.output += "[" + a.name + "] " + a.out
			}
		}
		return res
	}
	// staged launch: the usual winners first, the rest only if needed
	var stages [][]job
	if preFile != "" {
		stages = [][]job{
			{{solvers[0], file, false}, {solvers[2], preFile, true}},
			{{solvers[0], preFile, true}},
			{{solvers[1], file, false}, {solvers[2], file, false}, {solvers[1], preFile, true}},
		}
	} else {
		stages = [][]job{
			{{solvers[0], file, false}},
			{{solvers[2], file, false}},
			{{solvers[1], file, false}},
		}
	}
	delays := []time.Duration{0, 1500 * time.Millisecond, 4000 * time.Millisecond}
	pending := 0
	next := 0
	var outs []string
	timer := time.NewTimer(0)
	defer timer.Stop()
	for {
		select {
		case <-timer.C:
			if next < len(stages) {
				for _, j := range stages[next] {
					launch(j)
					pending++
				}
				next++
				if next < len(stages) {
					timer.Reset(delays[next] - delays[next-1])
				}
			}
		case a := <-ch:
			pending--
			res.all[a.name] = a.status
			if a.status != "unknown" {
				res.status, res.backend, res.ms, res.output = a.status, a.name, time.Since(start).Milliseconds(), a.out
				cancel()
				return res
			}
			outs = append(outs, "["+a.name+"] "+strings.TrimSpace(a.out))
			if pending == 0 && next < len(stages) {
				// everything launched so far gave up: start the next stage now
				timer.Reset(0)
			}
		}
		if pending == 0 && next >= len(stages) {
			break
		}
	}
	res.ms = time.Since(start).Milliseconds()
	res.output = strings.Join(outs, "\n")
	return res
}

// getModel re-runs a sat query with (get-model) on the given backend.
func getModel(query string, backend string, dir string) string {
	os.MkdirAll(dir, 0755)
	defer os.RemoveAll(dir)
	f := filepath.Join(dir, "model_query.smt2")
	os.WriteFile(f, []byte(query+"(get-model)\n"), 0644)
	defer os.Remove(f)
	for _, s := range solvers {
		if s.name == backend {
			args := s.args(f, 20000)
			out, _ := exec.Command(args[0], args[1:]...).CombinedOutput()
			return string(out)
		}
	}
	return ""
}

// SolveAll discharges obligations in parallel.
func SolveAll(obls []*Obl, workDir string, timeoutMs int, all bool) {
	os.MkdirAll(workDir, 0755)
	nw := runtime.NumCPU() - 2
	if nw > 14 {
		nw = 14
	}
	if nw < 1 {
		nw = 1
	}
	// cover obligations of the same name: stop after the first sat
	var mu sync.Mutex
	covered := map[string]bool{}
	sem := make(chan struct{}, nw)
	var wg sync.WaitGroup
	solve := func(id string, o *Obl) { solveOne(id, o, workDir, timeoutMs, all, &mu, covered) }
	for i, o := range obls {
		if o.Status != "" || o.Kind == "deadprobe" {
			continue
		}
		wg.Add(1)
		sem <- struct{}{}
		go func(i int, o *Obl) {
			defer wg.Done()
			defer func() { <-sem }()
			solve(fmt.Sprintf("%05d", i), o)
		}(i, o)
	}
	wg.Wait()
	if os.Getenv("WALVC_PROF") != "" {
		fmt.Fprintf(os.Stderr, "prof: build %.1fs preinst %.1fs portfolio %.1fs (summed over workers)\n", time.Duration(profBuild).Seconds(), time.Duration(profPre).Seconds(), time.Duration(profSolve).Seconds())
	}
	solveDeadProbes(obls, workDir)
}

// solveOne decides one obligation. A goal with several conjuncts is first
// tried as a whole; only if that is not proved quickly are the conjuncts
// decided one by one (the obligation then takes the name and verdict of the
// first conjunct that is not proved).
func solveOne(id string, o *Obl, workDir string, timeoutMs int, all bool, mu *sync.Mutex, covered map[string]bool) {
	if len(o.Pieces) > 1 && o.Expect != "sat" {
		pieces := o.Pieces
		o.Pieces = nil
		if !all {
			q := o.BuildSlicedQuery()
			f := filepath.Join(workDir, fmt.Sprintf("q%s.smt2", id))
			os.WriteFile(f, []byte(q), 0644)
			fast := raceFast(f)
			os.Remove(f)
			if fast != nil {
				o.Query = q
				o.Status, o.Backend, o.Ms = "proved", fast.backend, fast.ms
				return
			}
		}
		base := o.Name
		var ms int64
		backend := ""
		for k, g := range pieces {
			if g.Const && g.V == 1 {
				continue
			}
			sub := *o
			sub.Goal = g
			sub.Name = fmt.Sprintf("%s/%d", base, k+1)
			sub.Status = ""
			solveOne(fmt.Sprintf("%s_%d", id, k+1), &sub, workDir, timeoutMs, all, mu, covered)
			ms += sub.Ms
			backend = sub.Backend
			if sub.Status != "proved" {
				*o = sub
				o.Ms = ms
				return
			}
		}
		o.Status, o.Backend, o.Ms = "proved", backend, ms
		return
	}
	{
		i := id
		{
			if o.Expect == "sat" {
				mu.Lock()
				done := covered[o.Name]
				mu.Unlock()
				if done {
					o.Status = "covered"
					o.Backend = "dedup"
					return
				}
			}
			tb := time.Now()
			q := o.BuildSlicedQuery()
			atomic.AddInt64(&profBuild, int64(time.Since(tb)))
			o.Query = q
			f := filepath.Join(workDir, fmt.Sprintf("q%s.smt2", i))
			os.WriteFile(f, []byte(q), 0644)
			pf := ""
			// fast path: most obligations are decided by one solver well within a
			// second; pre-instantiation and the portfolio are for the rest
			var fast *solveResult
			if o.Expect != "sat" && !all && o.Exec != nil && (o.Exec.hasForeign(o) || (os.Getenv("WALVC_RELEVANCE") != "" && o.quantifiedAssumptions() >= 8)) {
				// first without the assumptions that belong to other properties
				o.Focus = true
				fq := o.BuildSlicedQuery()
				o.Focus = false
				ff := filepath.Join(workDir, fmt.Sprintf("q%s.focus.smt2", i))
				os.WriteFile(ff, []byte(fq), 0644)
				if d := os.Getenv("WALVC_DUMPFOCUS"); d != "" {
					os.MkdirAll(d, 0755)
					os.WriteFile(filepath.Join(d, sanitize(strings.ReplaceAll(o.Name, "/", "_"))+"_"+o.Path+".focus.smt2"), []byte(fq), 0644)
					os.WriteFile(filepath.Join(d, sanitize(strings.ReplaceAll(o.Name, "/", "_"))+"_"+o.Path+".full.smt2"), []byte(q), 0644)
				}
				fr := raceFastScaled(ff, 0.4)
				os.Remove(ff)
				if fr != nil {
					o.Query = fq
					o.Status, o.Backend, o.Ms = "proved", fr.backend+"+focus", fr.ms
					os.Remove(f)
					return
				}
			}
			if o.Expect != "sat" && !all {
				// the same sliced query often recurs on several paths: decide it once
				key := queryKey(q)
				fastMu.Lock()
				ent := fastCache[key]
				if ent == nil {
					ent = &fastEntry{}
					fastCache[key] = ent
				}
				fastMu.Unlock()
				ent.once.Do(func() { ent.res = raceFast(f) })
				if ent.res != nil {
					c := *ent.res
					fast = &c
				}
			}
			if o.Expect != "sat" && fast == nil {
				tp := time.Now()
				pq := PreInstantiate(q, 3)
				atomic.AddInt64(&profPre, int64(time.Since(tp)))
				if pq != "" {
					pf = filepath.Join(workDir, fmt.Sprintf("q%s.pre.smt2", i))
					os.WriteFile(pf, []byte(pq), 0644)
					defer os.Remove(pf)
				}
			}
			ts := time.Now()
			var r solveResult
			if fast != nil {
				r = *fast
			} else {
				r = runPortfolio(f, pf, timeoutMs, all && o.Expect != "sat")
			}
			atomic.AddInt64(&profSolve, int64(time.Since(ts)))
			o.Backend, o.Ms = r.backend, r.ms
			if o.Expect == "sat" {
				switch r.status {
				case "sat":
					o.Status = "covered"
					mu.Lock()
					covered[o.Name] = true
					mu.Unlock()
				case "unsat":
					o.Status = "uncovered"
				default:
					o.Status = "cover-unknown"
				}
			} else {
				switch r.status {
				case "unsat":
					o.Status = "proved"
				case "sat":
					// re-check on the unsliced query before refuting
					fq := o.BuildQuery()
					if fq != q {
						os.WriteFile(f, []byte(fq), 0644)
						pf2 := ""
						if pq := PreInstantiate(fq, 3); pq != "" {
							pf2 = filepath.Join(workDir, fmt.Sprintf("q%s.pre2.smt2", i))
							os.WriteFile(pf2, []byte(pq), 0644)
							defer os.Remove(pf2)
						}
						r2 := runPortfolio(f, pf2, timeoutMs, false)
						o.Query = fq
						q = fq
						o.Backend, o.Ms = r2.backend, o.Ms+r2.ms
						if r2.status == "unsat" {
							o.Status = "proved"
							break
						}
						if r2.status != "sat" {
							o.Status = "unknown"
							o.Model = r2.output
							break
						}
						r = r2
					}
					o.Status = "refuted"
					o.Model = getModel(q, r.backend, workDir+fmt.Sprintf("/m%s", i))
				default:
					o.Status = "unknown"
					o.Model = r.output
				}
				if all {
					// disagreement check
					var seen string
					for n, s := range r.all {
						if s == "unknown" {
							continue
						}
						if seen != "" && seen != s {
							o.Status = "solver-disagreement"
							o.Model = fmt.Sprintf("%v", r.all)
						}
						seen = s
						_ = n
					}
				}
			}
			os.Remove(f)
		}
	}
}

var profBuild, profPre, profSolve int64

// loadFactor scales the fast-path time limits when the machine is busy (set by CheckProperty).
var loadFactor = 1.0

type fastEntry struct {
	once sync.Once
	res  *solveResult
}

var (
	fastMu    sync.Mutex
	fastCache = map[string]*fastEntry{}
)

// queryKey is the query text without its comment lines.
func queryKey(q string) string {
	var b strings.Builder
	for _, l := range strings.Split(q, "\n") {
		if strings.HasPrefix(l, ";") {
			continue
		}
		b.WriteString(l)
		b.WriteByte('\n')
	}
	return b.String()
}

// raceFast runs z3-new (2 s) and cvc5 (6 s) side by side; the first
// `unsat` wins (each decides goals the other needs much longer for).
func raceFast(f string) *solveResult { return raceFastScaled(f, 1.0) }

func raceFastScaled(f string, scale float64) *solveResult {
	ctx, cancel := context.WithCancel(context.Background())
	defer cancel()
	type ans struct {
		name string
		out  string
		ms   int64
	}
	zt := int(2*loadFactor*scale + 0.5)
	if zt < 1 {
		zt = 1
	}
	cmds := [][]string{{"z3-new", fmt.Sprintf("-T:%d", zt), f}, {"cvc5", "--full-saturate-quant", fmt.Sprintf("--tlimit=%d", int(6000*loadFactor*scale)), f}}
	// third racer: old z3 on the pre-instantiated (quantifier-free) weakening,
	// where computing that weakening is cheap for this unit's queries
	if pf := cheapPreinst(f); pf != "" {
		defer os.Remove(pf)
		cmds = append(cmds, []string{"z3", fmt.Sprintf("-T:%d", int(6*loadFactor*scale+0.5)), pf, "+preinst"})
	}
	ch := make(chan ans, len(cmds))
	for _, c := range cmds {
		go func(c []string) {
			select {
			case procSlots <- struct{}{}:
			case <-ctx.Done():
				ch <- ans{c[0], "", 0}
				return
			}
			defer func() { <-procSlots }()
			t0 := time.Now()
			name := c[0]
			args := c[1:]
			if args[len(args)-1] == "+preinst" {
				name += "+preinst"
				args = args[:len(args)-1]
			}
			out, _ := exec.CommandContext(ctx, c[0], args...).CombinedOutput()
			ch <- ans{name, string(out), time.Since(t0).Milliseconds()}
		}(c)
	}
	for range cmds {
		a := <-ch
		if strings.HasPrefix(strings.TrimSpace(a.out), "unsat") {
			return &solveResult{status: "unsat", backend: a.name, ms: a.ms, output: a.out}
		}
	}
	return nil
}

// solveDeadProbes decides, per unit, whether some return is reachable under
// all (also the quantified) assumptions. A unit with a covered return on a
// quantifier-free path needs no probe; otherwise its probes run (last return
// first, four at a time) until one is not provably dead.
func solveDeadProbes(obls []*Obl, workDir string) {
	probed := map[string]bool{}
	byUnit := map[string][]*Obl{}
	var units []string
	for _, o := range obls {
		if o.Kind == "deadprobe" && o.Status == "" {
			probed[o.Unit+"@"+o.Path] = true
			if _, ok := byUnit[o.Unit]; !ok {
				units = append(units, o.Unit)
			}
			byUnit[o.Unit] = append(byUnit[o.Unit], o)
		}
	}
	exact := map[string]bool{}
	for _, o := range obls {
		if o.Kind == "cover" && o.Status == "covered" && strings.Contains(o.Name, "/cover:return") && !probed[o.Unit+"@"+o.Path] {
			exact[o.Unit] = true
		}
	}
	var uwg sync.WaitGroup
	for _, u := range units {
		ps := byUnit[u]
		if exact[u] {
			for _, o := range ps {
				o.Status = "skipped"
			}
			continue
		}
		uwg.Add(1)
		go func(u string, ps []*Obl) {
			defer uwg.Done()
			// last return first: the success return is usually the last one
			sort.SliceStable(ps, func(i, j int) bool { return ps[i].Name > ps[j].Name })
			alive := false
			for i := 0; i < len(ps); i += 4 {
				if alive {
					for _, o := range ps[i:] {
						o.Status = "skipped"
					}
					break
				}
				j := i + 4
				if j > len(ps) {
					j = len(ps)
				}
				var wg sync.WaitGroup
				var mu sync.Mutex
				for k, o := range ps[i:j] {
					wg.Add(1)
					go func(k int, o *Obl) {
						defer wg.Done()
						q := o.BuildQuery()
						o.Query = q
						f := filepath.Join(workDir, fmt.Sprintf("dp_%s_%d.smt2", sanitize(u), i+k))
						os.WriteFile(f, []byte(q), 0644)
						defer os.Remove(f)
						procSlots <- struct{}{}
						t0 := time.Now()
						out, _ := exec.Command("z3-new", "-T:2", f).CombinedOutput()
						<-procSlots
						o.Ms = time.Since(t0).Milliseconds()
						o.Backend = "z3-new"
						if strings.HasPrefix(strings.TrimSpace(string(out)), "unsat") {
							o.Status = "dead"
						} else {
							o.Status = "alive"
							mu.Lock()
							alive = true
							mu.Unlock()
						}
					}(k, o)
				}
				wg.Wait()
			}
		}(u, ps)
	}
	uwg.Wait()
}


// foreignLabels: the assumption text came from a labelled clause none of whose
// labels names a property that the goal's labels name.
func (e *Exec) foreignLabels(term string, goalLabels []string) bool {
	ls := e.termLabels[term]
	if len(ls) == 0 {
		return false
	}
	if len(goalLabels) == 0 {
		return true // an unlabelled (structural) goal: property-specific extras are left out first
	}
	for _, l := range ls {
		for _, g := range goalLabels {
			if labelProp(l) == labelProp(g) {
				return false
			}
		}
	}
	return true
}

func (e *Exec) hasForeign(o *Obl) bool {
	for _, t := range o.PC {
		if e.foreignLabels(t.S, o.Labels) {
			return true
		}
	}
	return false
}

func labelProp(l string) string {
	if i := strings.Index(l, "."); i > 0 {
		return l[:i]
	}
	return l
}


func (o *Obl) quantifiedAssumptions() int {
	n := 0
	for _, t := range o.PC {
		if strings.Contains(t.S, "(forall ") {
			n++
		}
	}
	return n
}


// cheapPreinst writes the pre-instantiated variant of the query in file f next
// to it, unless pre-instantiation has proved expensive for queries of this size
// class (it is quadratic in the number of ground terms; the wal.go transaction
// proofs take seconds, the codec proofs milliseconds).
var (
	preinstMu    sync.Mutex
	preinstSlow  = map[int]bool{}
)

func cheapPreinst(f string) string {
	data, err := os.ReadFile(f)
	if err != nil {
		return ""
	}
	q := string(data)
	class := strings.Count(q, "(forall ") // queries of one unit have similar quantifier counts
	preinstMu.Lock()
	slow := preinstSlow[class]
	preinstMu.Unlock()
	if slow {
		return ""
	}
	t0 := time.Now()
	pq := PreInstantiate(q, 3)
	if time.Since(t0) > 250*time.Millisecond {
		preinstMu.Lock()
		preinstSlow[class] = true
		preinstMu.Unlock()
	}
	if pq == "" {
		return ""
	}
	pf := f + ".pre"
	os.WriteFile(pf, []byte(pq), 0644)
	return pf
}
