package main

// Forward symbolic execution of go/ssa functions producing named obligations.

import (
	"fmt"
	"go/ast"
	"go/constant"
	"go/token"
	"go/types"
	"sort"
	"strings"

	"golang.org/x/tools/go/packages"
	"golang.org/x/tools/go/ssa"
)

type Prog struct {
	counterMemo map[*ssa.Function][]string
	fset      *token.FileSet
	prog      *ssa.Program
	pkgs      []*ssa.Package
	contracts *ContractSet
	strIDs    map[string]int
	errIDs    map[string]int
	funcs     map[string]*ssa.Function // key -> function
	loopCache map[*ssa.Function]*LoopSet
	globalZero map[*ssa.Global]bool
	ordCache  map[*ssa.Function]map[ssa.Instruction]int
	allFuncs  []*ssa.Function
	astPkgs   []*packages.Package
	staleContracts map[string]bool
}

type Obl struct {
	Unit   string
	Name   string
	Kind   string
	Labels []string
	Props  []string
	PC     []T
	Goal   T
	Expect string // "unsat" (valid) or "sat" (cover)
	Pieces []T    // conjuncts of Goal (set when there are several)
	Focus  bool   // build the query without assumptions labelled for other properties
	Path   string
	Where  string
	Site   string // return site (ensures) — part of a finding's identity
	MetricName, MetricKind, MetricPkg string
	Try    bool // not claimed: attempted in the thorough tier only
	RefinesKey string // interface-method contract this obligation links the unit to
	RawQuery string // complete SMT script (lemma files)
	Exec   *Exec
	// result
	Status  string // proved refuted unknown covered uncovered
	Backend string
	Ms      int64
	Model   string
	Query   string
}

type instrKind struct {
	in   ssa.Instruction
	kind string
}

type LoopInfo struct {
	Header  *ssa.BasicBlock
	Body    map[*ssa.BasicBlock]bool
	Ordinal int
}

type LoopSet struct {
	ByHeader map[*ssa.BasicBlock]*LoopInfo
}

type Exec struct {
	prog     *Prog
	fn       *ssa.Function
	contract *Contract
	unit     string

	decls     map[string]Sort
	declOrder []string
	nfresh    int
	nobj      int
	axioms    []T
	axiomSet  map[string]bool

	lazyObjs    map[string]*Object
	lazyRegs    map[string]*Region
	addrObjs    map[string]*Object
	objAddr     map[*Object]T
	writtenLocs map[string]*Loc
	writtenRegs map[string]*Region
	allLocs     map[string]*Loc
	nonNil      map[string]bool

	obls    []*Obl
	oblSeen map[string]bool
	unsup   []string
	unsupS  map[string]bool
	npaths  int
	nsteps  int
	pre     *State
	params  map[string]Value
	couplingsUsed map[string]bool
	refineNotes   map[string]bool
	refineGaps    map[string]int // interface contract -> clauses that could not be read through the coupling

	ordinals map[string]int
	instrOrd map[instrKind]string

	inlined   map[string]bool
	byContr   map[string]bool
	// view: property whose labelled loop invariants are active in this run ("" =
	// base run); viewProps: the properties that have labelled loop invariants
	view      string
	viewProps map[string]bool
	localNames map[string]bool
	// termLabels: labels of the contract clause an assumed term came from
	termLabels map[string][]string
	// requireTerms: assumed preconditions (never dropped by the relevance filter)
	requireTerms map[string]bool
	// calleeFrame: captured variables of the closure whose contract is being applied
	calleeFrame *Frame
	intrUsed  map[string]bool
	unspec    map[string]bool
	specFns   map[string]bool
	returned  int
	nhavoc    int
	allRegs   map[string]*Region
	boundedLoops map[string]bool
	noInvLoops   map[string]bool
	aborted   bool
	nbound    int
	ntrivial  int
	nAssumedFalse int
	ncalls    int
	errDyn    map[string]types.Type
	freshRegs map[*Region]bool
	regionAlias map[*Region]*Region
	anyElems  map[string]Value
	zeroObjs  map[*Object]Value
	strTags     map[string]string
	strElems    map[string]VStr
	objTags     map[*Object]string
	litOfRegion map[*Region]string
	contractErrs []string
	stale        map[string]bool
	skippedEnsures map[string]bool
	maxPaths  int
	callDepth int
}

func NewExec(p *Prog, fn *ssa.Function, c *Contract) *Exec {
	e := &Exec{
		prog: p, fn: fn, contract: c, unit: fnKey(fn),
		decls: map[string]Sort{}, axiomSet: map[string]bool{},
		lazyObjs: map[string]*Object{}, lazyRegs: map[string]*Region{},
		addrObjs: map[string]*Object{}, objAddr: map[*Object]T{},
		writtenLocs: map[string]*Loc{}, writtenRegs: map[string]*Region{}, allLocs: map[string]*Loc{},
		nonNil: map[string]bool{}, oblSeen: map[string]bool{}, unsupS: map[string]bool{},
		ordinals: map[string]int{}, instrOrd: map[instrKind]string{},
		inlined: map[string]bool{}, byContr: map[string]bool{}, intrUsed: map[string]bool{}, unspec: map[string]bool{},
		specFns: map[string]bool{}, maxPaths: 4000,
		errDyn: map[string]types.Type{}, freshRegs: map[*Region]bool{}, regionAlias: map[*Region]*Region{}, skippedEnsures: map[string]bool{}, stale: map[string]bool{}, strTags: map[string]string{}, strElems: map[string]VStr{}, objTags: map[*Object]string{}, litOfRegion: map[*Region]string{}, anyElems: map[string]Value{}, zeroObjs: map[*Object]Value{},
		allRegs: map[string]*Region{}, boundedLoops: map[string]bool{}, noInvLoops: map[string]bool{}, couplingsUsed: map[string]bool{}, refineNotes: map[string]bool{}, refineGaps: map[string]int{},
	}
	return e
}

func fnKey(fn *ssa.Function) string {
	if fn == nil {
		return "?"
	}
	if fn.Pkg == nil {
		// external or synthetic
		return fn.String()
	}
	return fn.Pkg.Pkg.Name() + "." + fn.RelString(fn.Pkg.Pkg)
}

func (e *Exec) unsupported(msg string) {
	if !e.unsupS[msg] {
		e.unsupS[msg] = true
		e.unsup = append(e.unsup, msg)
	}
}

// globalNeverStored reports whether no instruction in the repository packages
// stores to (any part of) the global, so that it keeps its zero value.
func (p *Prog) globalNeverStored(g *ssa.Global) bool {
	if v, ok := p.globalZero[g]; ok {
		return v
	}
	res := true
	var derived func(v ssa.Value, depth int) bool
	derived = func(v ssa.Value, depth int) bool {
		if v == ssa.Value(g) {
			return true
		}
		if depth > 4 {
			return false
		}
		switch x := v.(type) {
		case *ssa.IndexAddr:
			return derived(x.X, depth+1)
		case *ssa.FieldAddr:
			return derived(x.X, depth+1)
		case *ssa.Slice:
			return derived(x.X, depth+1)
		}
		return false
	}
	for _, fn := range p.allFuncs {
		for _, b := range fn.Blocks {
			for _, in := range b.Instrs {
				switch x := in.(type) {
				case *ssa.Store:
					if derived(x.Addr, 0) {
						res = false
					}
				case ssa.CallInstruction:
					for _, a := range x.Common().Args {
						if derived(a, 0) {
							// passed by reference: may be written unless it is a read-only use we know
							if cal := x.Common().StaticCallee(); cal != nil && cal.String() == "bytes.Equal" {
								continue
							}
							res = false
						}
					}
				}
			}
		}
	}
	p.globalZero[g] = res
	return res
}

// ---------------------------------------------------------------------------
// Loops

func (p *Prog) loopsOf(fn *ssa.Function) *LoopSet {
	if ls, ok := p.loopCache[fn]; ok {
		return ls
	}
	ls := &LoopSet{ByHeader: map[*ssa.BasicBlock]*LoopInfo{}}
	for _, b := range fn.Blocks {
		for _, s := range b.Succs {
			if s.Dominates(b) {
				// back edge b -> s
				li := ls.ByHeader[s]
				if li == nil {
					li = &LoopInfo{Header: s, Body: map[*ssa.BasicBlock]bool{s: true}}
					ls.ByHeader[s] = li
				}
				// collect body: nodes that reach b without passing s
				stack := []*ssa.BasicBlock{b}
				for len(stack) > 0 {
					x := stack[len(stack)-1]
					stack = stack[:len(stack)-1]
					if li.Body[x] {
						continue
					}
					li.Body[x] = true
					for _, pr := range x.Preds {
						stack = append(stack, pr)
					}
				}
			}
		}
	}
	var hs []*ssa.BasicBlock
	for h := range ls.ByHeader {
		hs = append(hs, h)
	}
	sort.Slice(hs, func(i, j int) bool { return hs[i].Index < hs[j].Index })
	for i, h := range hs {
		ls.ByHeader[h].Ordinal = i + 1
	}
	p.loopCache[fn] = ls
	return ls
}

// ---------------------------------------------------------------------------
// Obligations

func (e *Exec) ordinalName(instr ssa.Instruction, kind string) string {
	ik := instrKind{instr, kind}
	if n, ok := e.instrOrd[ik]; ok {
		return n
	}
	fnk := "?"
	ord := 0
	tag := strings.TrimPrefix(fmt.Sprintf("%T", instr), "*ssa.")
	if fn := instr.Parent(); fn != nil {
		fnk = fnKey(fn)
		ord = e.prog.staticOrdinal(fn, instr)
	}
	n := fmt.Sprintf("safe:%s#%s%d", kind, tag, ord)
	if kind == "return" {
		n = fmt.Sprintf("safe:return#%d", ord)
	}
	if fnk != e.unit {
		n = fmt.Sprintf("safe:%s@%s#%s%d", kind, fnk, tag, ord)
	}
	e.instrOrd[ik] = n
	return n
}

// staticOrdinal numbers an instruction among the instructions of the same Go
// type of its function, in block order (independent of exploration order).
func (p *Prog) staticOrdinal(fn *ssa.Function, instr ssa.Instruction) int {
	m, ok := p.ordCache[fn]
	if !ok {
		m = map[ssa.Instruction]int{}
		counts := map[string]int{}
		for _, b := range fn.Blocks {
			for _, in := range b.Instrs {
				t := fmt.Sprintf("%T", in)
				counts[t]++
				m[in] = counts[t]
			}
		}
		p.ordCache[fn] = m
	}
	return m[instr]
}

func (e *Exec) where(instr ssa.Instruction) string {
	if instr == nil {
		return ""
	}
	pos := instr.Pos()
	if !pos.IsValid() {
		// look backwards for something with a position
		return ""
	}
	p := e.prog.fset.Position(pos)
	return fmt.Sprintf("%s:%d", p.Filename, p.Line)
}

func (e *Exec) emit(st *State, name, kind string, labels []string, goal T, where string) {
	if st.Dry {
		return
	}
	if goal.Const && goal.V == 1 {
		e.recordTrivial(name, kind, labels, where)
		return
	}
	if !e.inView(labels) {
		return
	}
	// the goal is kept whole; its conjuncts are decided separately only if the
	// whole goal is not proved quickly (solveOne)
	pieces := SplitGoal(goal, 24)
	pk := pcKey(st.PC)
	nm := e.unit + "/" + name
	o := &Obl{Unit: e.unit, Name: nm, Kind: kind, Labels: labels, PC: append([]T(nil), st.PC...), Goal: goal, Expect: "unsat", Path: st.PathID, Where: where, Exec: e}
	if len(pieces) > 1 {
		o.Pieces = pieces
	}
	key := o.Name + "|" + goal.S + "|" + pk
	if e.oblSeen[key] {
		return
	}
	e.oblSeen[key] = true
	e.obls = append(e.obls, o)
}

func (e *Exec) recordTrivial(name, kind string, labels []string, where string) {
	if !e.inView(labels) {
		return
	}
	if kind == "safe" {
		// syntactically discharged safety checks are only counted
		if !e.oblSeen["triv|"+name] {
			e.oblSeen["triv|"+name] = true
			e.ntrivial++
		}
		return
	}
	key := "triv|" + name
	if e.oblSeen[key] {
		return
	}
	e.oblSeen[key] = true
	e.obls = append(e.obls, &Obl{Unit: e.unit, Name: e.unit + "/" + name, Kind: kind, Labels: labels, Goal: True, Expect: "unsat", Status: "proved", Backend: "syntactic", Where: where, Exec: e})
}

func pcKey(pc []T) string {
	var b strings.Builder
	for _, t := range pc {
		b.WriteString(t.S)
		b.WriteByte(';')
	}
	return b.String()
}

// inView: obligations labelled for a view property belong to that view's run,
// everything else to the base run.
func (e *Exec) inView(labels []string) bool {
	for _, l := range labels {
		if e.viewProps[labelProp(l)] {
			return e.view != "" && labelProp(l) == e.view || e.view != "" && hasPropLabel(labels, e.view)
		}
	}
	return e.view == ""
}

// invActive: is this loop invariant part of the current view?
func (e *Exec) invActive(labels []string) bool {
	if len(labels) == 0 {
		return true
	}
	for _, l := range labels {
		if !e.viewProps[labelProp(l)] {
			return true
		}
		if e.view != "" && labelProp(l) == e.view {
			return true
		}
	}
	return false
}

func (e *Exec) emitCover(st *State, name string, where string) {
	if st.Dry || e.view != "" {
		return
	}
	o := &Obl{Unit: e.unit, Name: e.unit + "/" + name, Kind: "cover", PC: append([]T(nil), st.PC...), Goal: False, Expect: "sat", Path: st.PathID, Where: where, Exec: e}
	e.obls = append(e.obls, o)
	// Cover queries drop quantified assumptions, so a path whose quantified
	// assumptions (invariants, callee postconditions) contradict each other
	// would still count as reachable. A dead-path probe asks the opposite
	// question with everything kept: is `false` provable here?
	if strings.HasPrefix(name, "cover:return") {
		quant := false
		for _, t := range st.PC {
			if strings.Contains(t.S, "(forall ") {
				quant = true
				break
			}
		}
		if quant {
			d := &Obl{Unit: e.unit, Name: e.unit + "/deadprobe:" + strings.TrimPrefix(name, "cover:"), Kind: "deadprobe", PC: append([]T(nil), st.PC...), Goal: False, Expect: "unsat", Path: st.PathID, Where: where, Exec: e}
			e.obls = append(e.obls, d)
		}
	}
}

// safety obligation
func (e *Exec) safe(st *State, instr ssa.Instruction, kind string, goal T) {
	e.emit(st, e.ordinalName(instr, kind), "safe", nil, goal, e.where(instr))
	// after the check, execution continues under the assumption that it held
	st.assume(goal)
}

// ---------------------------------------------------------------------------
// Values of SSA operands

func (e *Exec) constVal(c *ssa.Const) Value {
	t := c.Type()
	if c.Value == nil {
		return e.zeroValue(t)
	}
	if w, signed, ok := intInfo(t); ok {
		var u uint64
		if v, exact := constant.Int64Val(constant.ToInt(c.Value)); exact {
			u = uint64(v)
		} else if v, exact := constant.Uint64Val(constant.ToInt(c.Value)); exact {
			u = v
		}
		return VInt{T: BVConst(w, u), Signed: signed}
	}
	if isBoolType(t) {
		if constant.BoolVal(c.Value) {
			return VBool{True}
		}
		return VBool{False}
	}
	if isStringType(t) {
		s := constant.StringVal(c.Value)
		return VStr{T: e.strConst(s), Lit: &s}
	}
	if isFloatType(t) {
		return VOpaque{T: e.fresh("float", BV64), Typ: t}
	}
	e.unsupported("constant of type " + t.String())
	return VOpaque{T: BVConst(64, 0), Typ: t}
}

func (e *Exec) globalValue(st *State, g *ssa.Global) Value {
	// address of a package-level variable
	elem := g.Type().(*types.Pointer).Elem()
	name := "G:" + g.Pkg.Pkg.Name() + "." + g.Name()
	obj := e.lazyObject(name, elem)
	if e.prog.globalNeverStored(g) {
		obj.ZeroInit = true
	}
	e.nonNil[name] = true
	return VPtr{Nil: False, Loc: &Loc{Obj: obj}, Elem: elem}
}

func (e *Exec) val(st *State, fr *Frame, v ssa.Value) Value {
	switch x := v.(type) {
	case *ssa.Const:
		return e.constVal(x)
	case *ssa.Global:
		return e.globalValue(st, x)
	case *ssa.Function:
		return VFunc{Fn: x, Nil: False, Typ: x.Type()}
	case *ssa.Builtin:
		return VFunc{Abstract: "builtin:" + x.Name(), Nil: False}
	}
	if val, ok := fr.Vals[v]; ok {
		return val
	}
	e.unsupported(fmt.Sprintf("use of undefined SSA value %s (%T) in %s", v.Name(), v, fr.Fn.Name()))
	return e.materialize(fmt.Sprintf("undef!%s", v.Name()), v.Type())
}

// ---------------------------------------------------------------------------
// Running

func (e *Exec) explore(init *State) []*State {
	work := []*State{init}
	var done []*State
	for len(work) > 0 {
		st := work[len(work)-1]
		work = work[:len(work)-1]
		for {
			if e.aborted {
				return done
			}
			e.nsteps++
			if e.nsteps > 400000 {
				e.unsupported("step budget exhausted")
				e.aborted = true
				return done
			}
			forks, end := e.step(st)
			for _, f := range forks {
				e.npaths++
				if e.npaths > e.maxPaths {
					e.unsupported(fmt.Sprintf("path budget (%d) exhausted", e.maxPaths))
					e.aborted = true
					return done
				}
				work = append(work, f)
			}
			if end {
				done = append(done, st)
				break
			}
		}
	}
	return done
}

// step executes one instruction of the top frame. It returns forked states
// (to be explored separately) and whether this state's path has ended.
func (e *Exec) step(st *State) (forks []*State, end bool) {
	if st.Dead {
		if st.AssumedFalse && !st.Dry {
			e.nAssumedFalse++
		}
		return nil, true
	}
	fr := st.top()
	instr := fr.Block.Instrs[fr.PC]
	switch in := instr.(type) {
	case *ssa.DebugRef:
		if id, ok := in.Expr.(*ast.Ident); ok {
			if fr.Names == nil {
				fr.Names = map[string]NameRef{}
			}
			fr.Names[id.Name] = NameRef{V: in.X, IsAddr: in.IsAddr}
		}
		fr.PC++
	case *ssa.If:
		c := e.val(st, fr, in.Cond).(VBool).T
		tb, fb := fr.Block.Succs[0], fr.Block.Succs[1]
		if c.Const {
			if c.V == 1 {
				return e.enterBlock(st, fr, tb)
			}
			return e.enterBlock(st, fr, fb)
		}
		other := st.clone()
		other.PathID = st.PathID + "f"
		st.PathID = st.PathID + "t"
		st.assume(c)
		other.assume(Not(c))
		f1, end1 := e.enterBlock(st, fr, tb)
		f2, end2 := e.enterBlock(other, other.top(), fb)
		forks = append(forks, f1...)
		forks = append(forks, f2...)
		if !end2 {
			forks = append(forks, other)
		}
		return forks, end1
	case *ssa.Jump:
		return e.enterBlock(st, fr, fr.Block.Succs[0])
	case *ssa.Return:
		var res Value
		switch len(in.Results) {
		case 0:
			res = nil
		case 1:
			res = e.val(st, fr, in.Results[0])
		default:
			vt := VTuple{}
			for _, r := range in.Results {
				vt.E = append(vt.E, e.val(st, fr, r))
			}
			res = vt
		}
		return e.doReturn(st, fr, res, in)
	case *ssa.Panic:
		if len(st.Frames) == 1 && e.contract != nil && e.contract.MayPanic {
			return nil, true
		}
		e.emit(st, e.ordinalName(in, "panic"), "safe", nil, False, e.where(in))
		return nil, true
	case *ssa.RunDefers:
		if n := len(fr.Defers); n > 0 {
			d := fr.Defers[n-1]
			fr.Defers = fr.Defers[:n-1]
			return e.invoke(st, fr, d.Call, d.Fn, d.Args, nil, in, true)
		}
		fr.PC++
	case *ssa.Defer:
		fnv, args := e.callOperands(st, fr, &in.Call)
		fr.Defers = append(fr.Defers, Deferred{Fn: fnv, Args: args, Call: &in.Call})
		fr.PC++
	case *ssa.Go:
		st.Notes = append(st.Notes, "go statement skipped: "+in.Call.String())
		fr.PC++
	case *ssa.Call:
		fnv, args := e.callOperands(st, fr, &in.Call)
		return e.invoke(st, fr, &in.Call, fnv, args, in, in, false)
	default:
		e.execSimple(st, fr, instr)
		if e.aborted {
			return nil, true
		}
		if st.Dead {
			return nil, true
		}
		fr.PC++
		if len(st.pendingSimpleForks) > 0 {
			forks = st.pendingSimpleForks
			st.pendingSimpleForks = nil
			return forks, false
		}
	}
	return nil, false
}

// enterBlock transfers control, handling loop headers.
func (e *Exec) enterBlock(st *State, fr *Frame, to *ssa.BasicBlock) (forks []*State, end bool) {
	from := fr.Block
	fr.Prev = from
	fr.Block = to
	fr.PC = 0
	ls := e.prog.loopsOf(fr.Fn)
	// leaving a loop during a dry run ends the dry path
	if st.Dry && st.DryLoop != nil && len(st.Frames) == st.DryDepth && !st.DryLoop.Body[to] {
		return nil, true
	}
	// evaluate phis with respect to the edge taken
	e.evalPhis(st, fr, to, from)
	li := ls.ByHeader[to]
	if li == nil {
		return nil, false
	}
	key := loopKey{fr.Fn, to, len(st.Frames)}
	if ctx, inside := st.InLoop[key]; inside && li.Body[from] {
		// back edge: check invariant preservation and decreases
		e.checkInvariant(st, fr, li, "preserved", ctx)
		return nil, true
	}
	return e.enterLoop(st, fr, li, key)
}

func (e *Exec) evalPhis(st *State, fr *Frame, b, from *ssa.BasicBlock) {
	// simultaneous assignment
	var idx = -1
	for i, p := range b.Preds {
		if p == from {
			idx = i
			break
		}
	}
	type pv struct {
		phi *ssa.Phi
		v   Value
	}
	var pvs []pv
	n := 0
	for _, in := range b.Instrs {
		phi, ok := in.(*ssa.Phi)
		if !ok {
			break
		}
		n++
		if idx < 0 {
			continue
		}
		pvs = append(pvs, pv{phi, e.val(st, fr, phi.Edges[idx])})
	}
	for _, x := range pvs {
		fr.Vals[x.phi] = x.v
	}
	fr.PC = n
}

type loopKey struct {
	fn    *ssa.Function
	h     *ssa.BasicBlock
	depth int
}

func (e *Exec) loopContract(fr *Frame) *Contract {
	if fr.Fn == e.fn {
		return e.contract
	}
	return e.prog.contracts.Funcs[fnKey(fr.Fn)]
}

// invariantEnv builds the evaluation environment at a loop head.
func (e *Exec) frameEnv(st *State, fr *Frame) *Env {
	env := &Env{e: e, st: st, old: e.pre, fr: fr, vars: map[string]Value{}, pos: true}
	for k, v := range e.params {
		env.vars[k] = v
	}
	return env
}

func (e *Exec) checkInvariant(st *State, fr *Frame, li *LoopInfo, phase string, ctx *LoopCtx) {
	c := e.loopContract(fr)
	if c == nil {
		return
	}
	env := e.frameEnv(st, fr)
	for i, inv := range c.Invs[li.Ordinal] {
		if !e.invActive(inv.Labels) {
			continue
		}
		g := env.evalBool(inv.E)
		name := fmt.Sprintf("loop%d/invariant-%s#%d", li.Ordinal, phase, i+1)
		if len(inv.Labels) > 0 {
			name = fmt.Sprintf("loop%d/invariant-%s[%s]", li.Ordinal, phase, strings.Join(inv.Labels, ","))
		}
		e.emit(st, name, "invariant", inv.Labels, g, fmt.Sprintf("%s:%d", inv.File, inv.Line))
	}
	if d := c.Decr[li.Ordinal]; d != nil && phase == "preserved" && ctx != nil && ctx.DecrEntry != nil {
		cur := env.evalInt(d.E)
		old := *ctx.DecrEntry
		g := And(BVCmp("bvslt", cur.T, old), BVCmp("bvsle", BVConst(cur.T.Sort.W, 0), old))
		e.emit(st, fmt.Sprintf("loop%d/decreases", li.Ordinal), "decreases", d.Labels, g, fmt.Sprintf("%s:%d", d.File, d.Line))
	}
}

func (e *Exec) enterLoop(st *State, fr *Frame, li *LoopInfo, key loopKey) (forks []*State, end bool) {
	c := e.loopContract(fr)
	// bounded unrolling stand-in
	if c != nil {
		if k, ok := c.Unroll[li.Ordinal]; ok {
			cnt := st.Unrolled[key]
			if cnt >= k {
				// unwinding assertion: the loop must not need another iteration
				e.emit(st, fmt.Sprintf("loop%d/unwind(%d)", li.Ordinal, k), "bounded", nil, False, "")
				return nil, true
			}
			if st.Unrolled == nil {
				st.Unrolled = map[loopKey]int{}
			}
			st.Unrolled[key] = cnt + 1
			e.boundedLoops[fmt.Sprintf("%s loop %d unrolled %d", fnKey(fr.Fn), li.Ordinal, k)] = true
			return nil, false
		}
	}
	// 1. invariant holds on entry
	e.checkInvariant(st, fr, li, "init", nil)
	if c == nil || len(c.Invs[li.Ordinal]) == 0 {
		e.noInvLoops[fmt.Sprintf("%s loop %d", fnKey(fr.Fn), li.Ordinal)] = true
	}
	// 2. infer the set of locations modified by the body (fixpoint of dry runs)
	writes := map[string]bool{}
	for iter := 0; iter < 6; iter++ {
		probe := st.clone()
		probe.Dry = true
		probe.DryLoop = li
		probe.DryDepth = len(probe.Frames)
		probe.Writes = map[string]bool{}
		pfr := probe.top()
		e.havocLoop(probe, pfr, li, writes)
		e.assumeInvariant(probe, pfr, li)
		probe.InLoop[key] = &LoopCtx{}
		savedAbort := e.aborted
		ends := e.explore(probe)
		_ = savedAbort
		grew := false
		for _, d := range ends {
			for w := range d.Writes {
				if !writes[w] {
					writes[w] = true
					grew = true
				}
			}
		}
		if !grew {
			break
		}
	}
	// 3. havoc and assume invariant
	e.havocLoop(st, fr, li, writes)
	e.assumeInvariant(st, fr, li)
	ctx := &LoopCtx{}
	if c != nil {
		if d := c.Decr[li.Ordinal]; d != nil {
			env := e.frameEnv(st, fr)
			v := env.evalInt(d.E)
			ctx.DecrEntry = &v.T
		}
	}
	st.InLoop[key] = ctx
	for w := range writes {
		st.Writes[w] = true
	}
	return nil, false
}

func (e *Exec) assumeInvariant(st *State, fr *Frame, li *LoopInfo) {
	// structural fact of range-over-slice loops: the hidden index starts at
	// -1 and only increments below the length
	for _, in := range li.Header.Instrs {
		phi, ok := in.(*ssa.Phi)
		if !ok {
			break
		}
		if phi.Comment == "rangeindex" {
			if v, ok := fr.Vals[phi].(VInt); ok {
				st.assume(And(BVCmp("bvsle", BVConst(v.T.Sort.W, ^uint64(0)), v.T), BVCmp("bvslt", v.T, BVConst(v.T.Sort.W, 1<<maxLenBits))))
			}
		}
	}
	c := e.loopContract(fr)
	if c == nil {
		return
	}
	env := e.frameEnv(st, fr)
	env.pos = false
	for _, inv := range c.Invs[li.Ordinal] {
		if !e.invActive(inv.Labels) {
			continue
		}
		g := env.evalBool(inv.E)
		if len(inv.Labels) > 0 {
			if e.termLabels == nil {
				e.termLabels = map[string][]string{}
			}
			e.termLabels[g.S] = inv.Labels
		}
		st.assume(g)
	}
}

func (e *Exec) havocLoop(st *State, fr *Frame, li *LoopInfo, writes map[string]bool) {
	e.nhavoc++
	tag := fmt.Sprintf("~L%d_%d", li.Ordinal, e.nhavoc)
	for _, in := range li.Header.Instrs {
		phi, ok := in.(*ssa.Phi)
		if !ok {
			break
		}
		name := phi.Comment
		if name == "" {
			name = phi.Name()
		}
		fr.Vals[phi] = e.materialize(fmt.Sprintf("%s%s", name, tag), phi.Type())
	}
	var keys []string
	for w := range writes {
		keys = append(keys, w)
	}
	sort.Strings(keys)
	for _, w := range keys {
		e.havocKey(st, w, tag)
	}
}

func (e *Exec) havocKey(st *State, w string, tag string) {
	if strings.HasPrefix(w, "reg:") {
		name := w[4:]
		r := e.allRegs[name]
		if r == nil {
			return
		}
		if m, ok := st.Mem[r]; ok {
			for k, t := range m {
				m[k] = e.declare(fmt.Sprintf("%s@mem.%s%s", r.Name, k, tag), t.Sort)
			}
		} else {
			// region only written inside the loop: havoc the scalar array
			if s, ok := elemSort(r.Elem); ok {
				st.Mem[r] = map[string]T{"": e.declare(fmt.Sprintf("%s@mem%s", r.Name, tag), ArrSort(BV64, s))}
			}
		}
		return
	}
	if strings.HasPrefix(w, "obj:") {
		l := e.allLocs[w]
		if l == nil {
			return
		}
		nv := e.materializeAt(l.Obj.Typ, l.Path, fmt.Sprintf("%s.%s%s", l.Obj.Name, pathKey(l.Path), tag))
		if nv == nil {
			return
		}
		root := e.objRoot(st, l.Obj)
		st.Objs[l.Obj] = e.setPath(root, l.Path, nv)
		return
	}
	if strings.HasPrefix(w, "ghost:") {
		g := w[6:]
		if old, ok := st.Ghost[g]; ok {
			st.Ghost[g] = e.havocLike(old, g+tag)
			return
		}
		// not yet materialised on this path: obtain its (typed) initial value first
		if strings.HasPrefix(g, "g_") {
			st.Ghost[g] = e.havocLike(e.ghostGlobal(st, g), g+tag)
			return
		}
		if strings.HasPrefix(g, "counter:") {
			st.Ghost[g] = VInt{T: e.declare(g+tag, BV64)}
			return
		}
		if strings.HasPrefix(g, "closed:") {
			st.Ghost[g] = VBool{e.declare(g+tag, BoolSort)}
			return
		}
		if i := strings.LastIndex(g, "#"); i > 0 {
			if o := e.lazyObjs[g[:i]]; o != nil {
				if _, known := ghostKinds[g[i+1:]]; known && ghostKinds[g[i+1:]] != "bytes" {
					st.Ghost[g] = e.havocLike(e.ghostGet(st, o, g[i+1:]), g+tag)
				}
			}
		}
	}
}

func (e *Exec) havocLike(v Value, name string) Value {
	switch x := v.(type) {
	case VInt:
		return VInt{T: e.declare(name, x.T.Sort), Signed: x.Signed}
	case VBool:
		return VBool{e.declare(name, BoolSort)}
	case VErr:
		return VErr{e.declare(name, BV32)}
	case VTerm:
		return VTerm{e.declare(name, x.T.Sort)}
	}
	return v
}

// doReturn handles a return from the top-of-stack frame.
func (e *Exec) doReturn(st *State, fr *Frame, res Value, in *ssa.Return) (forks []*State, end bool) {
	if len(st.Frames) == 1 {
		if st.Dry {
			return nil, true
		}
		e.finishPath(st, fr, res, in)
		return nil, true
	}
	if st.Dry && st.DryDepth == len(st.Frames) {
		return nil, true
	}
	// pop
	st.Frames = st.Frames[:len(st.Frames)-1]
	caller := st.top()
	if fr.RetInstr != nil {
		caller.Vals[fr.RetInstr] = res
	}
	if !fr.IsDefer {
		caller.PC++
	}
	return nil, false
}
