package main

import (
	"fmt"
	"go/constant"
	"go/types"
	"sort"
	"strconv"
	"strings"

	"golang.org/x/tools/go/ssa"
)

func (e *Exec) callOperands(st *State, fr *Frame, c *ssa.CallCommon) (Value, []Value) {
	var args []Value
	for _, a := range c.Args {
		args = append(args, e.val(st, fr, a))
	}
	return e.val(st, fr, c.Value), args
}

// setResult stores a call result and advances.
func (e *Exec) setResult(fr *Frame, ret ssa.Value, res Value, isDefer bool) {
	if ret != nil {
		fr.Vals[ret] = res
	}
	if !isDefer {
		fr.PC++
	}
}

func resultType(c *ssa.CallCommon) types.Type {
	sig := c.Signature()
	switch sig.Results().Len() {
	case 0:
		return nil
	case 1:
		return sig.Results().At(0).Type()
	}
	return sig.Results()
}

// invoke dispatches a call.
func (e *Exec) invoke(st *State, fr *Frame, c *ssa.CallCommon, fnv Value, args []Value, ret ssa.Value, instr ssa.Instruction, isDefer bool) (forks []*State, end bool) {
	if c.IsInvoke() {
		return e.invokeMethod(st, fr, c, fnv, args, ret, instr, isDefer)
	}
	vf, ok := fnv.(VFunc)
	if !ok {
		e.unsupported(fmt.Sprintf("call of %T", fnv))
		e.setResult(fr, ret, e.freshResult(c), isDefer)
		return nil, false
	}
	if strings.HasPrefix(vf.Abstract, "builtin:") {
		res := e.builtin(st, fr, vf.Abstract[8:], c, args, instr)
		if st.Dead {
			return nil, true
		}
		forks := st.takeForks()
		for _, f := range forks {
			e.setResult(f.top(), ret, f.ForkRes, isDefer)
		}
		e.setResult(fr, ret, res, isDefer)
		return forks, false
	}
	if vf.Fn != nil {
		return e.callStatic(st, fr, vf.Fn, vf.Bindings, args, c, ret, instr, isDefer)
	}
	// abstract function value (function-typed parameter / field)
	e.safe(st, instr, "nilfunc", Not(vf.Nil))
	return e.callAbstract(st, fr, vf, args, c, ret, instr, isDefer)
}

func (e *Exec) freshResult(c *ssa.CallCommon) Value {
	rt := resultType(c)
	if rt == nil {
		return nil
	}
	return e.materialize(e.freshName("res"), rt)
}

func namedOf(t types.Type) *types.Named {
	for {
		switch x := t.(type) {
		case *types.Named:
			return x
		case *types.Pointer:
			t = x.Elem()
		default:
			return nil
		}
	}
}

func (e *Exec) invokeMethod(st *State, fr *Frame, c *ssa.CallCommon, recv Value, args []Value, ret ssa.Value, instr ssa.Instruction, isDefer bool) (forks []*State, end bool) {
	mname := c.Method.Name()
	switch r := recv.(type) {
	case VIface:
		e.safe(st, instr, "nil", Not(r.Nil))
		if r.Dyn != nil {
			fn := e.prog.prog.LookupMethod(r.Dyn, c.Method.Pkg(), mname)
			if fn != nil {
				return e.callStatic(st, fr, fn, nil, append([]Value{r.Val}, args...), c, ret, instr, isDefer)
			}
		}
	case VErr:
		// err.Error()
		// err.Error(): the message is a function of the error value
		e.specFns["errmsg"] = true
		e.setResult(fr, ret, VStr{T: UF("errmsg", BV32, r.T)}, isDefer)
		return nil, false
	}
	// interface-level contract
	key := ""
	if n := namedOf(c.Value.Type()); n != nil && n.Obj().Pkg() != nil {
		key = n.Obj().Pkg().Name() + "." + n.Obj().Name() + "." + mname
		// embedded interface methods: find declaring interface
		key = e.ifaceMethodKey(n, mname, key)
	} else if n != nil {
		key = n.Obj().Name() + "." + mname
	}
	if h, ok := ifaceIntrinsics[key]; ok {
		e.intrUsed["iface:"+key] = true
		res := h(e, st, fr, recv, args, instr)
		if st.Dead {
			return nil, true
		}
		e.setResult(fr, ret, res, isDefer)
		return nil, false
	}
	if ct, ok := e.prog.contracts.Funcs[key]; ok {
		sig := c.Signature()
		names := []string{"self"}
		for i := 0; i < sig.Params().Len(); i++ {
			n := sig.Params().At(i).Name()
			if n == "" || n == "_" {
				n = fmt.Sprintf("arg%d", i)
			}
			names = append(names, n)
		}
		st.Trace = append(st.Trace, "call:"+key)
		res := e.byContract(st, fr, key, ct, names, append([]Value{recv}, args...), resultType(c), instr)
		e.setResult(fr, ret, res, isDefer)
		return nil, false
	}
	e.unspec["invoke "+key] = true
	e.setResult(fr, ret, e.freshResult(c), isDefer)
	return nil, false
}

// ifaceMethodKey resolves the interface that declares the method (handles
// embedding such as SegmentWriter embedding SegmentReader, io.Closer).
func (e *Exec) ifaceMethodKey(n *types.Named, m string, dflt string) string {
	if _, ok := e.prog.contracts.Funcs[dflt]; ok {
		return dflt
	}
	if _, ok := ifaceIntrinsics[dflt]; ok {
		return dflt
	}
	it, ok := n.Underlying().(*types.Interface)
	if !ok {
		return dflt
	}
	for i := 0; i < it.NumEmbeddeds(); i++ {
		en := namedOf(it.EmbeddedType(i))
		if en == nil {
			continue
		}
		eit, ok := en.Underlying().(*types.Interface)
		if !ok {
			continue
		}
		for j := 0; j < eit.NumMethods(); j++ {
			if eit.Method(j).Name() == m {
				k := en.Obj().Name() + "." + m
				if en.Obj().Pkg() != nil {
					k = en.Obj().Pkg().Name() + "." + k
				}
				return e.ifaceMethodKey(en, m, k)
			}
		}
	}
	return dflt
}

const maxInlineDepth = 14

func (e *Exec) callStatic(st *State, fr *Frame, fn *ssa.Function, bindings, args []Value, c *ssa.CallCommon, ret ssa.Value, instr ssa.Instruction, isDefer bool) (forks []*State, end bool) {
	full := fn.String()
	if o := fn.Origin(); o != nil {
		full = o.String()
	}
	if h, ok := intrinsics[full]; ok {
		e.intrUsed[full] = true
		res := h(e, st, fr, args, instr)
		if st.Dead {
			return nil, true
		}
		if forks := st.takeForks(); len(forks) > 0 {
			for _, f := range forks {
				e.setResult(f.top(), ret, f.ForkRes, isDefer)
			}
			e.setResult(fr, ret, res, isDefer)
			return forks, false
		}
		e.setResult(fr, ret, res, isDefer)
		return nil, false
	}
	key := fnKey(fn)
	if ct, ok := e.prog.contracts.Funcs[key]; ok && !ct.Inline && fn != e.fn && !e.inlineCallDirective(key) {
		var names []string
		for i, p := range fn.Params {
			n := p.Name()
			if n == "" || n == "_" {
				n = fmt.Sprintf("arg%d", i) // e.g. parameters of functions known from export data only
			}
			names = append(names, n)
		}
		if len(fn.Params) == 0 && len(args) > 0 {
			// a function known from export data only has no parameter values:
			// name the arguments after the signature (receiver first)
			sig := fn.Signature
			k := 0
			if sig.Recv() != nil {
				n := sig.Recv().Name()
				if n == "" || n == "_" {
					n = "arg0"
				}
				names = append(names, n)
				k = 1
			}
			for i := 0; i < sig.Params().Len(); i++ {
				n := sig.Params().At(i).Name()
				if n == "" || n == "_" {
					n = fmt.Sprintf("arg%d", i+k)
				}
				names = append(names, n)
			}
		}
		allArgs := args
		if !e.prog.staleContracts[key] {
			snap := st.clone()
			nobl := len(e.obls)
			// a closure's contract may mention its captured variables
			e.calleeFrame = nil
			if len(fn.FreeVars) > 0 {
				pf := &Frame{Fn: fn, Vals: map[ssa.Value]Value{}}
				for j, fv := range fn.FreeVars {
					if j < len(bindings) {
						pf.Vals[fv] = bindings[j]
					}
				}
				e.calleeFrame = pf
			}
			res, cerr := e.tryByContract(st, fr, key, ct, names, allArgs, resultType(c), instr)
			e.calleeFrame = nil
			if cerr == "" {
				e.setResult(fr, ret, res, isDefer)
				return nil, false
			}
			// the contract does not fit the function any more (e.g. after a
			// refactoring): restore the state and fall back to the body
			e.prog.staleContracts[key] = true
			e.stale[fmt.Sprintf("contract of %s cannot be evaluated at a call site (%s): callee inlined instead", key, cerr)] = true
			*st = *snap
			fr = st.top()
			e.obls = e.obls[:nobl]
		} else {
			e.stale[fmt.Sprintf("contract of %s is stale: callee inlined instead", key)] = true
		}
	}
	if fn.Blocks != nil && len(st.Frames) < maxInlineDepth {
		for _, f := range st.Frames {
			if f.Fn == fn {
				e.unsupported("recursive call to " + key)
				e.setResult(fr, ret, e.freshResult(c), isDefer)
				return nil, false
			}
		}
		e.inlined[key] = true
		nf := &Frame{Fn: fn, Vals: map[ssa.Value]Value{}, Block: fn.Blocks[0], RetInstr: ret, IsDefer: isDefer}
		for i, p := range fn.Params {
			if i < len(args) {
				nf.Vals[p] = args[i]
			}
		}
		for i, fv := range fn.FreeVars {
			if i < len(bindings) {
				nf.Vals[fv] = bindings[i]
			}
		}
		st.Frames = append(st.Frames, nf)
		return nil, false
	}
	e.unspec[full] = true
	e.setResult(fr, ret, e.freshResult(c), isDefer)
	return nil, false
}

// inlineCallDirective reports whether the unit's contract asks for calls to
// key to be executed through the callee's body (`inlinecall <callee>`): used
// where a closure handed to the callee has preconditions over the callee's
// arguments, which are then asserted at the closure's actual invocation.
func (e *Exec) inlineCallDirective(key string) bool {
	if e.contract == nil {
		return false
	}
	for _, ic := range e.contract.InlineCalls {
		if key == ic || strings.HasSuffix(key, "."+ic) {
			return true
		}
	}
	return false
}

// tryByContract is byContract with contract errors returned instead of raised.
func (e *Exec) tryByContract(st *State, fr *Frame, key string, ct *Contract, names []string, args []Value, rt types.Type, instr ssa.Instruction) (res Value, cerr string) {
	defer func() {
		if r := recover(); r != nil {
			if ce, ok := r.(contractError); ok {
				cerr = ce.msg
				return
			}
			panic(r)
		}
	}()
	return e.byContract(st, fr, key, ct, names, args, rt, instr), ""
}

// byContract applies a callee contract at a call site: assert requires,
// havoc the frame, assume ensures.
func (e *Exec) byContract(st *State, fr *Frame, key string, ct *Contract, names []string, args []Value, rt types.Type, instr ssa.Instruction) Value {
	e.byContr[key] = true
	e.ncalls++
	callTag := fmt.Sprintf("c%d", e.ncalls)
	env := &Env{e: e, st: st, old: st, vars: map[string]Value{}, pos: true, pkgName: ct.Pkg, fr: e.calleeFrame}
	calleeFrame := e.calleeFrame
	for i, n := range names {
		if i < len(args) {
			env.vars[n] = args[i]
		}
	}
	// ghost parameters of the callee: its guarantees hold for every value, so
	// any instantiation is sound; the caller's contract may name a useful one
	for _, g := range ct.Ghosts {
		parts := strings.SplitN(g, " ", 2)
		var gv Value
		if e.contract != nil && fr.Fn == e.fn {
			ord := e.callOrdinal(fr.Fn, instr, key)
			for _, ga := range e.contract.GhostArgs {
				if ga.Name == parts[0] && strings.HasSuffix(key, "."+ga.Callee) && ga.Ordinal == fmt.Sprint(ord) {
					cenv := e.frameEnv(st, fr)
					gv = cenv.eval(ga.E)
				}
			}
		}
		if gv == nil {
			if fn := e.prog.funcs[key]; fn != nil {
				if tv, err := types.Eval(e.prog.fset, fn.Pkg.Pkg, fn.Pos(), parts[1]); err == nil {
					gv = e.materialize(fmt.Sprintf("%s!%s.ghost_%s", sanitize(key), callTag, parts[0]), tv.Type)
				}
			}
		}
		if gv == nil {
			e.unsupported("cannot instantiate ghost parameter " + parts[0] + " of " + key)
			continue
		}
		if vi, ok := gv.(VInt); ok && vi.Untyped {
			gv = coerceUntyped(vi, 64, false)
		}
		env.vars[parts[0]] = gv
	}
	// `site before-call(<callee>#n) requires[label] expr`: an assertion of the
	// unit about the state and the arguments (callarg0, callarg1, ...; the
	// receiver of an interface call is callarg0) right before its n-th call of
	// the callee
	if e.contract != nil && fr.Fn == e.fn && len(e.contract.Sites) > 0 {
		ord := e.callOrdinal(fr.Fn, instr, key)
		for _, sc := range e.contract.Sites {
			if !strings.HasPrefix(sc.Callee, "before-call(") {
				continue
			}
			want := strings.TrimSuffix(strings.TrimPrefix(sc.Callee, "before-call("), ")")
			i := strings.LastIndex(want, "#")
			if i < 0 || want[i+1:] != fmt.Sprint(ord) || !(key == want[:i] || strings.HasSuffix(key, "."+want[:i])) {
				continue
			}
			senv := e.frameEnv(st, fr)
			for j, a := range args {
				senv.vars[fmt.Sprintf("callarg%d", j)] = a
			}
			g, cerr := senv.tryEvalBool(sc.Clause.E)
			if cerr != "" {
				e.stale[fmt.Sprintf("site %s of %s cannot be evaluated (%s): skipped", sc.Callee, e.unit, cerr)] = true
				continue
			}
			e.emit(st, fmt.Sprintf("assert-before(%s)[%s]", want, joinLabels(sc.Clause.Labels)), "assert", sc.Clause.Labels, g, fmt.Sprintf("%s:%d", sc.Clause.File, sc.Clause.Line))
			st.assume(g)
		}
	}
	short := key
	for i, rq := range ct.Requires {
		g := env.evalBool(rq.E)
		name := fmt.Sprintf("%s/pre(%s)#%d", e.ordinalName(instr, "call"), short, i+1)
		if len(rq.Labels) > 0 {
			name = fmt.Sprintf("%s/pre(%s)[%s]", e.ordinalName(instr, "call"), short, strings.Join(rq.Labels, ","))
		}
		e.emit(st, name, "requires", rq.Labels, g, e.where(instr))
		st.assume(g)
	}
	// direct call of a closure: its invariants over captured variables are preconditions here
	if calleeFrame != nil {
		for i, ci := range ct.CbInv {
			g := env.evalBool(ci.E)
			e.emit(st, fmt.Sprintf("%s/cbinv(%s)#%d", e.ordinalName(instr, "call"), short, i+1), "requires", ci.Labels, g, e.where(instr))
			st.assume(g)
		}
	}
	// closures passed for `callback` parameters: callback-invariant rule
	type cbArg struct {
		env *Env
		ct  *Contract
	}
	var cbs []cbArg
	for i, n := range names {
		if _, isCb := ct.Extra["callback."+n]; !isCb || i >= len(args) {
			continue
		}
		vf, ok := args[i].(VFunc)
		if !ok || vf.Fn == nil {
			continue
		}
		cct := e.prog.contracts.Funcs[fnKey(vf.Fn)]
		if cct == nil {
			e.unsupported("closure " + fnKey(vf.Fn) + " passed as callback has no contract")
			continue
		}
		pf := &Frame{Fn: vf.Fn, Vals: map[ssa.Value]Value{}}
		for j, fv := range vf.Fn.FreeVars {
			if j < len(vf.Bindings) {
				pf.Vals[fv] = vf.Bindings[j]
			}
		}
		cenv := &Env{e: e, st: st, old: st, fr: pf, vars: map[string]Value{}, pos: true, pkgName: cct.Pkg}
		// the callback invariant must hold after the callee's ghost prologue
		ist := st.clone()
		genv := &Env{e: e, st: ist, old: ist, vars: env.vars, pos: true, pkgName: ct.Pkg}
		for _, gi := range ct.GhostInit {
			ist.Ghost[gi.Name] = genv.eval(gi.E)
		}
		ienv := &Env{e: e, st: ist, old: ist, fr: pf, vars: map[string]Value{}, pos: true, pkgName: cct.Pkg}
		for k, ci := range cct.CbInv {
			nm := fmt.Sprintf("%s/cbinv-init(%s)#%d", e.ordinalName(instr, "call"), fnKey(vf.Fn), k+1)
			e.emit(ist, nm, "invariant", ci.Labels, ienv.evalBool(ci.E), e.where(instr))
		}
		cbs = append(cbs, cbArg{cenv, cct})
		e.byContr[fnKey(vf.Fn)+" (callback invariant)"] = true
	}
	pre := st.clone()
	// metric counters the callee (transitively) increments are part of its frame
	if cfn := e.prog.funcs[key]; cfn != nil {
		for _, cn := range e.prog.countersTouched(cfn) {
			k := "counter:" + cn
			st.Ghost[k] = VInt{T: e.declare(fmt.Sprintf("%s~%s", k, callTag), BV64)}
			st.Writes["ghost:"+k] = true
		}
	}
	// havoc frame
	if ct.AssignAll {
		e.havocReachable(st, args, callTag)
	}
	for _, a := range ct.Assigns {
		env.havocTarget(a, callTag, pre)
	}
	for _, cb := range cbs {
		for _, a := range cb.ct.Assigns {
			cb.env.havocTarget(a, callTag+"cb", pre)
		}
	}
	var res Value
	if rt != nil {
		res = e.materialize(fmt.Sprintf("%s!%s.result", sanitize(key), callTag), rt)
	}
	post := &Env{e: e, st: st, old: pre, vars: map[string]Value{}, pos: false, pkgName: ct.Pkg, atCallSite: true, fr: calleeFrame}
	for k, v := range env.vars {
		post.vars[k] = v
	}
	post.bindResult(res)
	// named results of the callee
	if cfn := e.prog.funcs[key]; cfn != nil {
		rs := cfn.Signature.Results()
		if vt, ok := res.(VTuple); ok {
			for i := 0; i < rs.Len() && i < len(vt.E); i++ {
				if n := rs.At(i).Name(); n != "" && n != "_" {
					post.vars[n] = vt.E[i]
				}
			}
		} else if res != nil && rs.Len() == 1 {
			if n := rs.At(0).Name(); n != "" && n != "_" {
				post.vars[n] = res
			}
		}
	}
	// a closure that implements a function contract also guarantees that
	// contract's postconditions (proved as its `implements` obligations)
	rcs := ct.ResultContracts
	type rcEnv struct {
		rc  ResultContract
		env *Env
	}
	var rcl []rcEnv
	for _, rc := range rcs {
		rcl = append(rcl, rcEnv{rc, post})
	}
	if ct.Implements != "" {
		if impl := e.prog.contracts.Funcs[ct.Implements]; impl != nil {
			ipost := &Env{e: e, st: st, old: pre, vars: map[string]Value{}, pos: false, pkgName: impl.Pkg, atCallSite: true}
			pi := 0
			for _, n := range impl.ParamNames {
				if be, ok := ct.ImplBind[n]; ok {
					benv := &Env{e: e, st: pre, old: pre, vars: map[string]Value{}, pos: true, pkgName: ct.Pkg, fr: calleeFrame}
					ipost.vars[n] = benv.eval(be)
					continue
				}
				if pi < len(args) {
					ipost.vars[n] = args[pi]
				}
				pi++
			}
			ipost.bindResult(res)
			for _, en := range impl.Ensures {
				if !en.Try {
					st.assume(ipost.evalBool(en.E))
				}
			}
			for _, rc := range impl.ResultContracts {
				rcl = append(rcl, rcEnv{rc, ipost})
			}
		}
	}
	// function-valued results that carry a function contract
	for _, re := range rcl {
		rc, post := re.rc, re.env
		var rnames []string
		if cfn := e.prog.funcs[key]; cfn != nil {
			rs := cfn.Signature.Results()
			for i := 0; i < rs.Len(); i++ {
				rnames = append(rnames, rs.At(i).Name())
			}
		}
		idx := resultIndexOf(rc.Result, rnames)
		var gargs []Value
		for _, a := range rc.Args {
			gargs = append(gargs, post.eval(a))
		}
		tag := func(v Value) Value {
			if vf, ok := v.(VFunc); ok {
				vf.Contract = rc.Key
				vf.GhostArgs = gargs
				return vf
			}
			return v
		}
		if vt, ok := res.(VTuple); ok && idx >= 0 && idx < len(vt.E) {
			vt.E[idx] = tag(vt.E[idx])
			res = vt
		} else if idx == 0 && res != nil {
			res = tag(res)
		}
		post.bindResult(res)
	}
	for _, en := range ct.Ensures {
		if en.Try {
			continue // not established: never assumed by callers
		}
		// postconditions that mention callee-local variables are internal to
		// the callee (checked there, not visible to callers)
		func() {
			defer func() {
				if r := recover(); r != nil {
					if ce, ok := r.(contractError); ok && (strings.HasPrefix(ce.msg, "unknown identifier") || strings.HasPrefix(ce.msg, "unknown qualified identifier")) {
						e.skippedEnsures[fmt.Sprintf("%s: %s (%s)", key, en.Src, ce.msg)] = true
						return
					}
					panic(r)
				}
			}()
			st.assume(post.evalBool(en.E))
		}()
	}
	// ghost updates: right-hand sides read the pre-call values of ghost globals
	genv := post.sub()
	genv.ghostFromOld = true
	newGhost := map[string]Value{}
	for _, gs := range ct.GhostSet {
		newGhost[gs.Name] = genv.eval(gs.E)
	}
	for k, v := range newGhost {
		st.Ghost[k] = v
		st.Writes["ghost:"+k] = true
	}
	for _, cb := range cbs {
		cb.env.pos = false
		cb.env.old = pre
		for _, ci := range cb.ct.CbInv {
			st.assume(cb.env.evalBool(ci.E))
		}
	}
	// intermediate assertions of the unit: `site after-call(<callee>#n) requires[label] expr`
	// are proved here and then assumed (proof cut)
	if e.contract != nil && fr.Fn == e.fn && len(e.contract.Sites) > 0 {
		ord := e.callOrdinal(fr.Fn, instr, key)
		for _, sc := range e.contract.Sites {
			if !strings.HasPrefix(sc.Callee, "after-call(") {
				continue
			}
			want := strings.TrimSuffix(strings.TrimPrefix(sc.Callee, "after-call("), ")")
			i := strings.LastIndex(want, "#")
			if i < 0 || want[i+1:] != fmt.Sprint(ord) || !strings.HasSuffix(key, "."+want[:i]) {
				continue
			}
			// the call's result is not yet bound to its SSA value; expose it as `callresult`
			senv := e.frameEnv(st, fr)
			if res != nil {
				senv.vars["callresult"] = res
			}
			g, cerr := senv.tryEvalBool(sc.Clause.E)
			if cerr != "" {
				e.stale[fmt.Sprintf("proof cut %s of %s cannot be evaluated (%s): skipped", sc.Callee, e.unit, cerr)] = true
				continue
			}
			name := fmt.Sprintf("assert-after(%s)[%s]", want, joinLabels(sc.Clause.Labels))
			e.emit(st, name, "assert", sc.Clause.Labels, g, fmt.Sprintf("%s:%d", sc.Clause.File, sc.Clause.Line))
			st.assume(g)
		}
	}
	return res
}

// resultIndexOf maps a result name of the contract language (result, resultN
// or a named result) to its position.
func resultIndexOf(name string, named []string) int {
	if name == "result" {
		return 0
	}
	if strings.HasPrefix(name, "result") {
		if n, err := strconv.Atoi(name[6:]); err == nil {
			return n
		}
	}
	for i, n := range named {
		if n == name {
			return i
		}
	}
	return -1
}

func (env *Env) bindResult(res Value) {
	if res == nil {
		return
	}
	if vt, ok := res.(VTuple); ok {
		for i, x := range vt.E {
			env.vars[fmt.Sprintf("result%d", i)] = x
		}
		return
	}
	env.vars["result"] = res
	env.vars["result0"] = res
}

// callOrdinal numbers a call instruction among the calls of the same callee in
// its function (block order).
func (e *Exec) callOrdinal(fn *ssa.Function, instr ssa.Instruction, key string) int {
	n := 0
	for _, b := range fn.Blocks {
		for _, in := range b.Instrs {
			ci, ok := in.(ssa.CallInstruction)
			if !ok {
				continue
			}
			if cal := ci.Common().StaticCallee(); cal != nil && fnKey(cal) == key {
				n++
				if in == instr {
					return n
				}
			} else if c := ci.Common(); c.IsInvoke() {
				// interface call: ordinal among the calls of the same interface method
				if nt := namedOf(c.Value.Type()); nt != nil {
					k := nt.Obj().Name() + "." + c.Method.Name()
					if nt.Obj().Pkg() != nil {
						k = nt.Obj().Pkg().Name() + "." + k
					}
					if e.ifaceMethodKey(nt, c.Method.Name(), k) == key {
						n++
						if in == instr {
							return n
						}
					}
				}
			}
		}
	}
	return 0
}

// havocReachable havocs every field of objects directly referenced by args.
func (e *Exec) havocReachable(st *State, args []Value, tag string) {
	for _, a := range args {
		if p, ok := a.(VPtr); ok && p.Loc != nil && p.Loc.Obj != nil {
			nv := e.materialize(fmt.Sprintf("%s~%s", p.Loc.Obj.Name, tag), p.Loc.Obj.Typ)
			st.Objs[p.Loc.Obj] = nv
			st.Writes["obj:"+p.Loc.Obj.Name+":"] = true
			e.allLocs["obj:"+p.Loc.Obj.Name+":"] = &Loc{Obj: p.Loc.Obj}
		}
		if s, ok := a.(VSlice); ok && s.Reg != nil {
			e.havocRegion(st, s.Reg, tag)
		}
	}
}

func (e *Exec) havocRegion(st *State, r *Region, tag string) {
	if s, ok := elemSort(r.Elem); ok {
		e.setRegArr(st, r, "", e.declare(fmt.Sprintf("%s@mem~%s", r.Name, tag), ArrSort(BV64, s)))
	} else if m, ok := st.Mem[r]; ok {
		for k, t := range m {
			m[k] = e.declare(fmt.Sprintf("%s@mem.%s~%s", r.Name, k, tag), t.Sort)
		}
	}
}

// callAbstract handles calls of function-typed parameters/fields by their
// function-type contract (declared as `callback <name> ...` on the unit).
func (e *Exec) callAbstract(st *State, fr *Frame, vf VFunc, args []Value, c *ssa.CallCommon, ret ssa.Value, instr ssa.Instruction, isDefer bool) (forks []*State, end bool) {
	key := "funcvalue." + vf.Abstract
	// a value obtained from a result declared `resultcontract`: apply that
	// contract with its ghost parameters bound as recorded on the value
	if vf.Contract != "" {
		if ct, ok := e.prog.contracts.Funcs[vf.Contract]; ok {
			names := append([]string(nil), ct.ParamNames...)
			all := append(append([]Value(nil), vf.GhostArgs...), args...)
			sig := c.Signature()
			for i := 0; i < sig.Params().Len(); i++ {
				names = append(names, sig.Params().At(i).Name())
			}
			res := e.byContract(st, fr, vf.Contract, ct, names, all, resultType(c), instr)
			e.setResult(fr, ret, res, isDefer)
			return nil, false
		}
	}
	// contracts for function-typed values are keyed by the *type name* if named
	if n := namedOf(vf.Typ); n != nil && n.Obj().Pkg() != nil {
		tk := n.Obj().Pkg().Name() + "." + n.Obj().Name()
		if ct, ok := e.prog.contracts.Funcs[tk]; ok {
			sig := c.Signature()
			var names []string
			for i := 0; i < sig.Params().Len(); i++ {
				names = append(names, sig.Params().At(i).Name())
			}
			if len(ct.ParamNames) > 0 {
				names = ct.ParamNames
			}
			res := e.byContract(st, fr, tk, ct, names, args, resultType(c), instr)
			e.setResult(fr, ret, res, isDefer)
			return nil, false
		}
	}
	// callback contract on the current unit: "callback fn <contract-key>"
	if e.contract != nil {
		short := vf.Abstract
		if i := strings.LastIndex(short, "."); i >= 0 {
			short = short[i+1:]
		}
		if specs, ok := e.contract.Extra["callback."+short]; ok && len(specs) > 0 {
			ck := specs[0]
			if ct, ok := e.prog.contracts.Funcs[ck]; ok {
				sig := c.Signature()
				var names []string
				for i := 0; i < sig.Params().Len(); i++ {
					n := sig.Params().At(i).Name()
					if n == "" || n == "_" {
						n = fmt.Sprintf("arg%d", i)
					}
					names = append(names, n)
				}
				if len(ct.ParamNames) > 0 {
					names = ct.ParamNames
				}
				res := e.byContract(st, fr, ck, ct, names, args, resultType(c), instr)
				e.setResult(fr, ret, res, isDefer)
				return nil, false
			}
		}
	}
	e.unspec[key] = true
	st.Effects = append(st.Effects, "call-unknown-func:"+vf.Abstract)
	e.setResult(fr, ret, e.freshResult(c), isDefer)
	return nil, false
}

// ---------------------------------------------------------------------------
// Builtins

func (e *Exec) builtin(st *State, fr *Frame, name string, c *ssa.CallCommon, args []Value, instr ssa.Instruction) Value {
	switch name {
	case "len":
		switch x := args[0].(type) {
		case VSlice:
			return VInt{T: x.Len, Signed: true}
		case VStr:
			if x.Lit != nil {
				return VInt{T: i64(int64(len(*x.Lit))), Signed: true}
			}
			e.specFns["strlen"] = true
			t := UF("strlen", BV64, x.T)
			return VInt{T: t, Signed: true}
		case VMap:
			return VInt{T: e.mapLen(st, x), Signed: true}
		case VChan:
			return VInt{T: e.fresh("chanlen", BV64), Signed: true}
		}
	case "cap":
		if x, ok := args[0].(VSlice); ok {
			return VInt{T: x.Cap, Signed: true}
		}
	case "append":
		return e.appendOp(st, fr, args, instr)
	case "copy":
		return e.copyOp(st, fr, args, instr)
	case "delete":
		e.mapDelete(st, args[0], args[1])
		return nil
	case "close":
		st.Trace = append(st.Trace, "close-chan")
		if ch, ok := args[0].(VChan); ok && ch.Obj != nil {
			// closing a closed channel panics
			key := "closed:" + ch.Obj.Name
			var was T
			if g, have := st.Ghost[key]; have {
				was = g.(VBool).T
			} else {
				was = e.declare(key, BoolSort)
			}
			e.safe(st, instr, "close-closed", Not(was))
			st.Ghost[key] = VBool{True}
			st.Writes["ghost:"+key] = true
		}
		return nil
	case "panic":
		e.emit(st, e.ordinalName(instr, "panic"), "safe", nil, False, e.where(instr))
		st.Dead = true
		return nil
	case "min", "max":
		a, b := e.asInt(args[0]), e.asInt(args[1])
		lt := BVCmp(pick(a.Signed, "bvslt", "bvult"), a.T, b.T)
		if name == "min" {
			return VInt{T: Ite(lt, a.T, b.T), Signed: a.Signed}
		}
		return VInt{T: Ite(lt, b.T, a.T), Signed: a.Signed}
	case "recover":
		return VIface{Nil: True}
	}
	e.unsupported("builtin " + name)
	return e.freshResult(c)
}

// elementwise copy of n elements described by a quantified equation over a
// fresh array: new[k] = (dlo<=k<dlo+n) ? src[slo+(k-dlo)] : old[k].
func (e *Exec) blit(st *State, dst *Region, dlo T, src *Region, slo T, n T) {
	s, ok := elemSort(dst.Elem)
	if !ok {
		e.unsupported("copy of non-scalar elements")
		return
	}
	old := e.regArr(st, dst, "", s)
	srcA := e.regArr(st, src, "", s)
	if n.Const && n.V <= 16 {
		a := old
		for i := uint64(0); i < n.V; i++ {
			a = Store(a, BVBin("bvadd", dlo, i64(int64(i))), Select(srcA, BVBin("bvadd", slo, i64(int64(i)))))
		}
		e.setRegArr(st, dst, "", a)
		return
	}
	na := e.fresh(dst.Name+"@blit", ArrSort(BV64, s))
	k := Sym("k!b", BV64)
	in := And(BVCmp("bvsle", dlo, k), BVCmp("bvslt", k, BVBin("bvadd", dlo, n)))
	body := Eq(Select(na, k), Ite(in, Select(srcA, BVBin("bvadd", slo, BVBin("bvsub", k, dlo))), Select(old, k)))
	st.assume(Forall([]T{k}, body, Select(na, k)))
	e.setRegArr(st, dst, "", na)
}

func (e *Exec) copyOp(st *State, fr *Frame, args []Value, instr ssa.Instruction) Value {
	d, ok1 := args[0].(VSlice)
	var n T
	switch s := args[1].(type) {
	case VSlice:
		if !ok1 {
			break
		}
		n = Ite(BVCmp("bvslt", d.Len, s.Len), d.Len, s.Len)
		if d.Reg != nil && s.Reg != nil {
			if d.Reg == s.Reg {
				e.unsupported("overlapping copy within one region")
			}
			e.blit(st, d.Reg, d.Base, s.Reg, s.Base, n)
		}
		return VInt{T: n, Signed: true}
	case VStr:
		// copy(dst, string): contents opaque
		if ok1 && d.Reg != nil {
			e.havocRegion(st, d.Reg, e.freshName("cp"))
		}
		return VInt{T: e.fresh("copied", BV64), Signed: true}
	}
	e.unsupported("copy operands")
	return VInt{T: e.fresh("copied", BV64), Signed: true}
}

// appendOp models append(s, t...). It forks on capacity: in place vs. fresh
// region (the fork is encoded with an if-then-else free formulation by
// creating two states).
func (e *Exec) appendOp(st *State, fr *Frame, args []Value, instr ssa.Instruction) Value {
	s, ok := args[0].(VSlice)
	if !ok {
		e.unsupported("append to non-slice")
		return args[0]
	}
	var t VSlice
	switch x := args[1].(type) {
	case VSlice:
		t = x
	case VStr:
		e.unsupported("append(bytes, string...)")
		return s
	default:
		e.unsupported("append operand")
		return s
	}
	n := t.Len
	newLen := BVBin("bvadd", s.Len, n)
	fits := BVCmp("bvsle", newLen, s.Cap)
	_, scalar := elemSort(s.Elem)
	doCopy := func(st2 *State, dst *Region, dbase T) {
		if t.Reg == nil {
			return
		}
		if scalar {
			e.blit(st2, dst, BVBin("bvadd", dbase, s.Len), t.Reg, t.Base, n)
			return
		}
		if n.Const && n.V <= 4 {
			for i := uint64(0); i < n.V; i++ {
				v := e.readElem(st2, t.Reg, BVBin("bvadd", t.Base, i64(int64(i))), nil, s.Elem)
				e.writeElem(st2, dst, BVBin("bvadd", BVBin("bvadd", dbase, s.Len), i64(int64(i))), nil, v)
			}
			return
		}
		// contents of the appended part are left arbitrary (sound over-approximation)
		st2.Notes = append(st2.Notes, "append of a symbolic number of non-scalar elements: contents havocked")
		e.havocRegion(st2, dst, e.freshName("appendhavoc"))
	}
	// Case A: fits in place (only possible if region exists)
	// Case B: reallocation
	growState := st
	if !(fits.Const && fits.V == 0) && s.Reg != nil {
		if !(fits.Const && fits.V == 1) {
			// fork: the in-place branch continues in a clone
			inplace := st.clone()
			inplace.PathID += "a"
			inplace.assume(fits)
			doCopy(inplace, s.Reg, s.Base)
			inplace.ForkRes = VSlice{Nil: False, Reg: s.Reg, Base: s.Base, Len: newLen, Cap: s.Cap, Elem: s.Elem}
			st.pendingForks = append(st.pendingForks, inplace)
			st.PathID += "g"
			st.assume(Not(fits))
		} else {
			doCopy(st, s.Reg, s.Base)
			return VSlice{Nil: False, Reg: s.Reg, Base: s.Base, Len: newLen, Cap: s.Cap, Elem: s.Elem}
		}
	}
	// grow
	ncap := e.fresh("growcap", BV64)
	growState.assume(And(BVCmp("bvsle", newLen, ncap), BVCmp("bvslt", ncap, i64(1<<47))))
	ns := e.newSlice(growState, s.Elem, newLen, ncap, fmt.Sprintf("grow#%d", e.nobj+1))
	if s.Reg != nil {
		if scalar {
			e.blit(growState, ns.Reg, i64(0), s.Reg, s.Base, s.Len)
		} else {
			// copy family arrays wholesale when base is 0, otherwise unsupported
			if s.Base.Const && s.Base.V == 0 {
				if m, ok := growState.Mem[s.Reg]; ok {
					nm := map[string]T{}
					for k, v := range m {
						nm[k] = v
					}
					growState.Mem[ns.Reg] = nm
				} else {
					// alias initial content lazily: copy known keys on demand is not possible; mark
					e.regionAlias[ns.Reg] = s.Reg
				}
			} else {
				e.unsupported("append growth of shifted non-scalar slice")
			}
		}
	}
	doCopy(growState, ns.Reg, i64(0))
	// nil-ness: append(nil, nothing...) stays nil; ignore (len 0 case) => non-nil unless n==0 && s nil
	ns.Nil = And(s.Nil, Eq(n, i64(0)))
	return ns
}


// countersTouched: names of the metric counters a function may increment,
// through static calls and the closures it creates (memoised).
func (p *Prog) countersTouched(fn *ssa.Function) []string {
	if p.counterMemo == nil {
		p.counterMemo = map[*ssa.Function][]string{}
	}
	if r, ok := p.counterMemo[fn]; ok {
		return r
	}
	set := map[string]bool{}
	seen := map[*ssa.Function]bool{}
	var walk func(f *ssa.Function, depth int)
	walk = func(f *ssa.Function, depth int) {
		if f == nil || seen[f] || depth > 8 {
			return
		}
		seen[f] = true
		for _, b := range f.Blocks {
			for _, in := range b.Instrs {
				switch x := in.(type) {
				case *ssa.MakeClosure:
					if cf, ok := x.Fn.(*ssa.Function); ok {
						walk(cf, depth+1)
					}
				case ssa.CallInstruction:
					c := x.Common()
					if c.IsInvoke() {
						if c.Method.Name() == "IncrementCounter" && len(c.Args) > 0 {
							if k, ok := c.Args[0].(*ssa.Const); ok && k.Value != nil && k.Value.Kind() == constant.String {
								set[constant.StringVal(k.Value)] = true
							}
						}
						continue
					}
					if sf := c.StaticCallee(); sf != nil {
						walk(sf, depth+1)
					}
				}
			}
		}
	}
	walk(fn, 0)
	var out []string
	for k := range set {
		out = append(out, k)
	}
	sort.Strings(out)
	p.counterMemo[fn] = out
	return out
}
