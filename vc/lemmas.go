package main

// Pure SMT lemmas declared in contract files, and static (syntactic) checks.

import (
	"fmt"
	"go/token"
	"go/types"
	"strings"
)

func (p *Prog) lemmaObligations(prop string) []*Obl {
	var out []*Obl
	for _, l := range p.contracts.Lemmas {
		rel := contains(l.Props, prop)
		for _, c := range l.Prove {
			if hasPropLabel(c.Labels, prop) {
				rel = true
			}
		}
		if !rel {
			continue
		}
		out = append(out, p.runLemma(l)...)
	}
	return out
}

func (p *Prog) pkgByName(name string) *types.Package {
	for _, sp := range p.pkgs {
		if sp.Pkg.Name() == name {
			return sp.Pkg
		}
	}
	return nil
}

func (p *Prog) runLemma(l *Lemma) (obls []*Obl) {
	e := NewExec(p, nil, nil)
	e.unit = l.Pkg + ".lemma:" + l.Name
	st := &State{Objs: map[*Object]Value{}, Mem: map[*Region]map[string]T{}, Ghost: map[string]Value{}, Writes: map[string]bool{}, InLoop: map[loopKey]*LoopCtx{}, PathID: "l"}
	env := &Env{e: e, st: st, old: st, vars: map[string]Value{}, pos: false, pkgName: l.Pkg}
	defer func() {
		if r := recover(); r != nil {
			if ce, ok := r.(contractError); ok {
				obls = []*Obl{{Unit: e.unit, Name: e.unit + "/contract-error", Kind: "lemma", Goal: False, Expect: "unsat", Status: "unknown", Model: ce.msg, Exec: e, Props: l.Props}}
				return
			}
			panic(r)
		}
	}()
	pkg := p.pkgByName(l.Pkg)
	for _, v := range l.Vars {
		parts := strings.SplitN(strings.TrimSpace(v), " ", 2)
		if len(parts) != 2 {
			panic(contractError{"lemma vars: expected `name type` in " + v})
		}
		tv, err := types.Eval(p.fset, pkg, token.NoPos, strings.TrimSpace(parts[1]))
		if err != nil {
			panic(contractError{"lemma var " + v + ": " + err.Error()})
		}
		env.vars[parts[0]] = e.materialize(parts[0], tv.Type)
	}
	for _, a := range l.Assume {
		st.assume(env.evalBool(a.E))
	}
	env.pos = true
	for i, c := range l.Prove {
		g := env.evalBool(c.E)
		name := fmt.Sprintf("prove#%d", i+1)
		if len(c.Labels) > 0 {
			name = fmt.Sprintf("prove[%s]", strings.Join(c.Labels, ","))
		}
		labels := c.Labels
		e.emit(st, name, "lemma", labels, g, fmt.Sprintf("%s:%d", c.File, c.Line))
	}
	for _, o := range e.obls {
		if len(o.Labels) == 0 {
			o.Props = l.Props
		}
	}
	return e.obls
}

func (p *Prog) staticObligations(prop string) ([]*Obl, []string) { return nil, nil }
