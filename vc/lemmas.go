package main

// Pure SMT lemmas declared in contract files, and static (syntactic) checks.

import (
	"strconv"
	"fmt"
	"os"
	"path/filepath"
	"go/ast"
	"go/constant"
	"go/token"
	"go/types"
	"sort"
	"strings"

	"golang.org/x/tools/go/ssa"
)

// lemmaFiles: raw SMT lemma files (each must be unsat) that justify derived
// axioms; checked for the properties that rely on the sorted-map model.
var lemmaFileProps = map[string]bool{"C03": true, "C04": true, "C05": true, "C13": true}

func (p *Prog) lemmaFileObligations(prop string) []*Obl {
	if !lemmaFileProps[prop] {
		return nil
	}
	files, _ := filepath.Glob(filepath.Join(verifDir, "spec", "lemmas", "*.smt2"))
	sort.Strings(files)
	var out []*Obl
	for _, f := range files {
		if strings.HasPrefix(filepath.Base(f), "_") {
			continue
		}
		data, err := os.ReadFile(f)
		if err != nil {
			continue
		}
		out = append(out, &Obl{Unit: "spec.lemmas", Name: "spec.lemmas/" + strings.TrimSuffix(filepath.Base(f), ".smt2"), Kind: "lemma-file", Props: []string{prop}, Expect: "unsat", RawQuery: string(data), Where: f})
	}
	return out
}

func (p *Prog) lemmaObligations(prop string) []*Obl {
	var out []*Obl
	out = append(out, p.lemmaFileObligations(prop)...)
	for _, l := range p.contracts.Lemmas {
		rel := contains(l.Props, prop)
		for _, c := range l.Prove {
			if hasPropLabel(c.Labels, prop) {
				rel = true
			}
		}
		if !rel {
			continue
		}
		out = append(out, p.runLemma(l)...)
	}
	return out
}

func (p *Prog) pkgByName(name string) *types.Package {
	for _, sp := range p.pkgs {
		if sp.Pkg.Name() == name {
			return sp.Pkg
		}
	}
	return nil
}

func (p *Prog) runLemma(l *Lemma) (obls []*Obl) {
	e := NewExec(p, nil, nil)
	e.unit = l.Pkg + ".lemma:" + l.Name
	st := &State{Objs: map[*Object]Value{}, Mem: map[*Region]map[string]T{}, Ghost: map[string]Value{}, Writes: map[string]bool{}, InLoop: map[loopKey]*LoopCtx{}, PathID: "l"}
	env := &Env{e: e, st: st, old: st, vars: map[string]Value{}, pos: false, pkgName: l.Pkg}
	defer func() {
		if r := recover(); r != nil {
			if ce, ok := r.(contractError); ok {
				obls = []*Obl{{Unit: e.unit, Name: e.unit + "/contract-error", Kind: "lemma", Goal: False, Expect: "unsat", Status: "unknown", Model: ce.msg, Exec: e, Props: l.Props}}
				return
			}
			panic(r)
		}
	}()
	pkg := p.pkgByName(l.Pkg)
	for _, v := range l.Vars {
		parts := strings.SplitN(strings.TrimSpace(v), " ", 2)
		if len(parts) != 2 {
			panic(contractError{"lemma vars: expected `name type` in " + v})
		}
		tv, err := types.Eval(p.fset, pkg, token.NoPos, strings.TrimSpace(parts[1]))
		if err != nil {
			panic(contractError{"lemma var " + v + ": " + err.Error()})
		}
		env.vars[parts[0]] = e.materialize(parts[0], tv.Type)
	}
	for _, a := range l.Assume {
		st.assume(env.evalBool(a.E))
	}
	env.pos = true
	for i, c := range l.Prove {
		g := env.evalBool(c.E)
		name := fmt.Sprintf("prove#%d", i+1)
		if len(c.Labels) > 0 {
			name = fmt.Sprintf("prove[%s]", strings.Join(c.Labels, ","))
		}
		labels := c.Labels
		e.emit(st, name, "lemma", labels, g, fmt.Sprintf("%s:%d", c.File, c.Line))
	}
	for _, o := range e.obls {
		if len(o.Labels) == 0 {
			o.Props = l.Props
		}
	}
	return e.obls
}

// metricDefs extracts the names declared in a package's MetricDefinitions literal.
func (p *Prog) metricDefs(pkgPath string) (counters, gauges map[string]bool, found bool) {
	counters, gauges = map[string]bool{}, map[string]bool{}
	for _, ap := range p.astPkgs {
		if ap.PkgPath != pkgPath {
			continue
		}
		for _, f := range ap.Syntax {
			ast.Inspect(f, func(n ast.Node) bool {
				vs, ok := n.(*ast.ValueSpec)
				if !ok || len(vs.Names) != 1 || vs.Names[0].Name != "MetricDefinitions" || len(vs.Values) != 1 {
					return true
				}
				cl, ok := vs.Values[0].(*ast.CompositeLit)
				if !ok {
					return true
				}
				found = true
				for _, el := range cl.Elts {
					kv, ok := el.(*ast.KeyValueExpr)
					if !ok {
						continue
					}
					key, _ := kv.Key.(*ast.Ident)
					arr, _ := kv.Value.(*ast.CompositeLit)
					if key == nil || arr == nil {
						continue
					}
					for _, d := range arr.Elts {
						dl, ok := d.(*ast.CompositeLit)
						if !ok {
							continue
						}
						for _, fe := range dl.Elts {
							fkv, ok := fe.(*ast.KeyValueExpr)
							if !ok {
								continue
							}
							if id, ok := fkv.Key.(*ast.Ident); ok && id.Name == "Name" {
								if bl, ok := fkv.Value.(*ast.BasicLit); ok {
									name := strings.Trim(bl.Value, "\"")
									if key.Name == "Counters" {
										counters[name] = true
									} else if key.Name == "Gauges" {
										gauges[name] = true
									}
								}
							}
						}
					}
				}
				return true
			})
		}
	}
	return
}

// staticObligations: syntactic obligations decided over the SSA directly.
// C20: every IncrementCounter/SetGauge call site passes a constant name that is
// declared in the emitting package's MetricDefinitions.
func (p *Prog) staticObligations(prop string) ([]*Obl, []string) {
	if prop != "C20" {
		return p.docObligations(prop), nil
	}
	var out []*Obl
	var notes []string
	for _, sp := range p.pkgs {
		counters, gauges, found := p.metricDefs(sp.Pkg.Path())
		var fns []*ssa.Function
		for _, fn := range p.allFuncs {
			if fn.Pkg == sp {
				fns = append(fns, fn)
			}
		}
		sort.Slice(fns, func(i, j int) bool { return fnKey(fns[i]) < fnKey(fns[j]) })
		n := 0
		for _, fn := range fns {
			ord := 0
			for _, b := range fn.Blocks {
				for _, in := range b.Instrs {
					ci, ok := in.(ssa.CallInstruction)
					if !ok || !ci.Common().IsInvoke() {
						continue
					}
					m := ci.Common().Method.Name()
					if m != "IncrementCounter" && m != "SetGauge" {
						continue
					}
					nt := namedOf(ci.Common().Value.Type())
					if nt == nil || nt.Obj().Name() != "Collector" {
						continue
					}
					ord++
					n++
					o := &Obl{Unit: fnKey(fn), Kind: "static", Labels: []string{"C20.declared"}, Goal: True, Expect: "unsat", Backend: "syntactic", Where: p.fset.Position(in.Pos()).String()}
					c, isConst := ci.Common().Args[0].(*ssa.Const)
					name := "<non-constant>"
					okDecl := false
					if isConst && c.Value != nil {
						name = constant.StringVal(c.Value)
						if m == "IncrementCounter" {
							okDecl = counters[name]
						} else {
							okDecl = gauges[name]
						}
					}
					o.Name = fmt.Sprintf("%s/metric-declared#%d[%s(%s)]", fnKey(fn), ord, m, name)
					if found && okDecl {
						o.Status = "proved"
					} else {
						o.Status = "refuted"
						o.Model = fmt.Sprintf("metric name %q passed to %s is not declared in %s.MetricDefinitions (found=%v)", name, m, sp.Pkg.Path(), found)
						o.MetricName = name
						o.MetricKind = m
						o.MetricPkg = sp.Pkg.Path()
					}
					out = append(out, o)
				}
			}
		}
		if n > 0 {
			notes = append(notes, fmt.Sprintf("%s: %d emitting call sites checked against %d counters / %d gauges", sp.Pkg.Path(), n, len(counters), len(gauges)))
		}
	}
	return out, notes
}


// docObligations: `//@ doc[Cnn.label] <file> contains|lacks "<text>"` lines in
// the contract files pin sentences of the documentation that the contracts
// were written against (whitespace-insensitive). The documented format is the
// specification of C09; where a contract had to follow the code against the
// letter of the README, the README sentence is pinned here so that the two
// cannot drift apart silently.
func (p *Prog) docObligations(prop string) []*Obl {
	var out []*Obl
	files, _ := filepath.Glob(filepath.Join(repoDir, "*", "contracts_verif.go"))
	more, _ := filepath.Glob(filepath.Join(repoDir, "contracts_verif.go"))
	files = append(files, more...)
	sort.Strings(files)
	norm := func(s string) string { return strings.Join(strings.Fields(s), " ") }
	for _, f := range files {
		data, err := os.ReadFile(f)
		if err != nil {
			continue
		}
		for ln, line := range strings.Split(string(data), "\n") {
			line = strings.TrimSpace(line)
			if !strings.HasPrefix(line, "//@ doc[") {
				continue
			}
			rb := strings.Index(line, "]")
			if rb < 0 {
				continue
			}
			label := line[len("//@ doc["):rb]
			if labelProp(label) != prop {
				continue
			}
			rest := strings.TrimSpace(line[rb+1:])
			parts := strings.SplitN(rest, " ", 3)
			if len(parts) < 3 {
				continue
			}
			text, err := strconv.Unquote(strings.TrimSpace(parts[2]))
			if err != nil {
				continue
			}
			doc, derr := os.ReadFile(filepath.Join(repoDir, parts[0]))
			has := derr == nil && strings.Contains(norm(string(doc)), norm(text))
			o := &Obl{Unit: "doc:" + parts[0], Name: fmt.Sprintf("doc:%s/%s[%s]", parts[0], parts[1], label), Kind: "static", Labels: []string{label}, Goal: True, Expect: "unsat", Backend: "syntactic", Where: fmt.Sprintf("%s:%d", f, ln+1)}
			ok := (parts[1] == "contains" && has) || (parts[1] == "lacks" && !has && derr == nil)
			if ok {
				o.Status = "proved"
			} else {
				o.Status = "refuted"
				o.Model = fmt.Sprintf("%s %s %q does not hold", parts[0], parts[1], text)
			}
			out = append(out, o)
		}
	}
	return out
}
