package main

// Pure SMT lemmas declared in contract files, and static (syntactic) checks.

func (p *Prog) lemmaObligations(prop string) []*Obl { return nil }

func (p *Prog) staticObligations(prop string) ([]*Obl, []string) { return nil, nil }
