package main

import (
	"go/ast"
	"fmt"
	"go/types"
	"sort"
	"strings"

	"golang.org/x/tools/go/ssa"
)

// Run verifies one unit (function or closure) against its contract.
func (e *Exec) Run() {
	defer func() {
		if r := recover(); r != nil {
			if ce, ok := r.(contractError); ok {
				e.contractErrs = append(e.contractErrs, ce.msg)
				e.aborted = true
				return
			}
			panic(r)
		}
	}()
	fn := e.fn
	if fn.Blocks == nil {
		e.unsupported("function has no body")
		return
	}
	st := &State{Objs: map[*Object]Value{}, Mem: map[*Region]map[string]T{}, Ghost: map[string]Value{}, Writes: map[string]bool{}, InLoop: map[loopKey]*LoopCtx{}, PathID: "p"}
	fr := &Frame{Fn: fn, Vals: map[ssa.Value]Value{}, Block: fn.Blocks[0]}
	st.Frames = []*Frame{fr}
	e.params = map[string]Value{}
	for i, p := range fn.Params {
		name := p.Name()
		if i == 0 && fn.Signature.Recv() != nil {
			e.nonNil[name] = true
		}
		v := e.materialize(name, p.Type())
		fr.Vals[p] = v
		e.params[name] = v
	}
	for _, fv := range fn.FreeVars {
		name := fv.Name()
		e.nonNil[name+"&"] = true
		pt := fv.Type().(*types.Pointer)
		obj := e.lazyObject(name, pt.Elem())
		fr.Vals[fv] = VPtr{Nil: False, Loc: &Loc{Obj: obj}, Elem: pt.Elem()}
	}
	if e.contract != nil {
		for _, g := range e.contract.Ghosts {
			parts := strings.SplitN(g, " ", 2)
			tv, err := types.Eval(e.prog.fset, fn.Pkg.Pkg, fn.Pos(), parts[1])
			if err != nil {
				panic(contractError{"ghostparam " + g + ": " + err.Error()})
			}
			e.params[parts[0]] = e.materialize("ghost_"+parts[0], tv.Type)
		}
		// (atCallSite: event-trace predicates in an assumed precondition speak about
		// the caller's history, which this unit does not see: unconstrained)
		env := &Env{e: e, st: st, old: st, fr: fr, vars: map[string]Value{}, pos: false, atCallSite: true}
		for k, v := range e.params {
			env.vars[k] = v
		}
		for _, gi := range e.contract.GhostInit {
			st.Ghost[gi.Name] = env.eval(gi.E)
		}
		for _, rq := range e.contract.Requires {
			g := env.evalBool(rq.E)
			if e.requireTerms == nil {
				e.requireTerms = map[string]bool{}
			}
			e.requireTerms[g.S] = true
			st.assume(g)
		}
		if impl := e.implContract(); impl != nil {
			ienv := e.implEnv(st, fr, impl, false)
			for _, rq := range impl.Requires {
				g := ienv.evalBool(rq.E)
				if e.requireTerms == nil {
					e.requireTerms = map[string]bool{}
				}
				e.requireTerms[g.S] = true
				st.assume(g)
			}
		}
		for _, ci := range e.contract.CbInv {
			st.assume(env.evalBool(ci.E))
		}
	}
	e.pre = st.clone()
	e.emitCover(st, "cover:requires-satisfiable", "")
	e.explore(st)
}

func (e *Exec) implContract() *Contract {
	if e.contract == nil || e.contract.Implements == "" {
		return nil
	}
	c := e.prog.contracts.Funcs[e.contract.Implements]
	if c == nil {
		panic(contractError{"implements: unknown contract " + e.contract.Implements})
	}
	return c
}

// implEnv binds the parameter names of a function-type contract to this
// unit's parameters by position.
func (e *Exec) implEnv(st *State, fr *Frame, impl *Contract, pos bool) *Env {
	env := &Env{e: e, st: st, old: e.pre, fr: fr, vars: map[string]Value{}, pos: pos, pkgName: impl.Pkg, atCallSite: !pos}
	if e.pre == nil {
		env.old = st
	}
	pi := 0
	for _, n := range impl.ParamNames {
		if be, ok := e.contract.ImplBind[n]; ok {
			// ghost-bound parameter: stands for a captured variable of this closure
			benv := &Env{e: e, st: st, old: env.old, fr: fr, vars: map[string]Value{}, pos: true, pkgName: e.contract.Pkg}
			env.vars[n] = benv.eval(be)
			continue
		}
		if pi < len(e.fn.Params) {
			env.vars[n] = fr.Vals[e.fn.Params[pi]]
			if v, ok := e.params[e.fn.Params[pi].Name()]; ok {
				env.vars[n] = v
			}
		}
		pi++
	}
	return env
}

// checkResultContracts: a function-valued result declared `resultcontract r
// key(args)` must be nil, a closure whose contract implements key with its
// ghost-bound parameters standing for args, or a value obtained from a callee
// with the same declaration.
func (e *Exec) checkResultContracts(st *State, fr *Frame, ct *Contract, env *Env, res Value) {
	for _, rc := range ct.ResultContracts {
		idx := resultIndexOf(rc.Result, e.resultNames())
		var v Value
		if vt, ok := res.(VTuple); ok {
			if idx >= 0 && idx < len(vt.E) {
				v = vt.E[idx]
			}
		} else if idx == 0 {
			v = res
		}
		vf, ok := v.(VFunc)
		name := fmt.Sprintf("resultcontract(%s %s)", rc.Result, rc.Key)
		where := fmt.Sprintf("%s:%d", rc.File, rc.Line)
		if !ok {
			e.emit(st, name, "ensures", nil, False, where)
			continue
		}
		if vf.Nil.Const && vf.Nil.V == 1 {
			continue
		}
		var want []Value
		for _, a := range rc.Args {
			want = append(want, env.eval(a))
		}
		var have []Value
		switch {
		case vf.Fn != nil:
			cct := e.prog.contracts.Funcs[fnKey(vf.Fn)]
			impl := e.prog.contracts.Funcs[rc.Key]
			if cct == nil || impl == nil || cct.Implements != rc.Key {
				e.emit(st, name+"/implements", "ensures", nil, False, where)
				continue
			}
			pf := &Frame{Fn: vf.Fn, Vals: map[ssa.Value]Value{}}
			for j, fv := range vf.Fn.FreeVars {
				if j < len(vf.Bindings) {
					pf.Vals[fv] = vf.Bindings[j]
				}
			}
			benv := &Env{e: e, st: st, old: st, fr: pf, vars: map[string]Value{}, pos: true, pkgName: cct.Pkg}
			for _, n := range impl.ParamNames {
				if be, ok := cct.ImplBind[n]; ok {
					have = append(have, benv.eval(be))
				}
			}
			// creation-time invariants of the closure over its captured variables
			for k, ci := range cct.CbInv {
				e.emit(st, fmt.Sprintf("%s/cbinv-init(%s)#%d", name, fnKey(vf.Fn), k+1), "invariant", ci.Labels, benv.evalBool(ci.E), where)
			}
			e.byContr[fnKey(vf.Fn)+" (closure invariant at creation)"] = true
		case vf.Contract == rc.Key:
			have = vf.GhostArgs
		default:
			e.emit(st, name+"/implements", "ensures", nil, False, where)
			continue
		}
		g := True
		if len(have) != len(want) {
			g = False
		} else {
			for i := range want {
				g = And(g, e.valEq(have[i], want[i]))
			}
		}
		e.emit(st, name+"/binding", "ensures", nil, Or(vf.Nil, g), where)
	}
}

func (e *Exec) resultNames() []string {
	var ns []string
	res := e.fn.Signature.Results()
	for i := 0; i < res.Len(); i++ {
		ns = append(ns, res.At(i).Name())
	}
	return ns
}

func (e *Exec) finishPath(st *State, fr *Frame, res Value, in *ssa.Return) {
	e.returned++
	if e.contract == nil {
		return
	}
	env := &Env{e: e, st: st, old: e.pre, fr: fr, vars: map[string]Value{}, pos: true}
	for k, v := range e.params {
		env.vars[k] = v
	}
	env.bindResult(res)
	names := e.resultNames()
	if vt, ok := res.(VTuple); ok {
		for i, n := range names {
			if n != "" && n != "_" && i < len(vt.E) {
				env.vars[n] = vt.E[i]
			}
		}
	} else if res != nil && len(names) == 1 && names[0] != "" && names[0] != "_" {
		env.vars[names[0]] = res
	}
	if impl := e.implContract(); impl != nil {
		ienv := e.implEnv(st, fr, impl, true)
		ienv.bindResult(res)
		for _, gs := range impl.GhostSet {
			st.Ghost[gs.Name] = ienv.eval(gs.E)
		}
		for i, en := range impl.Ensures {
			e.emit(st, fmt.Sprintf("implements(%s)/ensures#%d", impl.Key, i+1), "ensures", en.Labels, ienv.evalBool(en.E), fmt.Sprintf("%s:%d", en.File, en.Line))
		}
		e.checkResultContracts(st, fr, impl, ienv, res)
	}
	e.checkResultContracts(st, fr, e.contract, env, res)
	e.emitRefinements(st, fr, res, in)
	for i, ci := range e.contract.CbInv {
		name := fmt.Sprintf("cbinv-preserved#%d", i+1)
		if len(ci.Labels) > 0 {
			name = fmt.Sprintf("cbinv-preserved[%s]", strings.Join(ci.Labels, ","))
		}
		e.emit(st, name, "invariant", ci.Labels, env.evalBool(ci.E), fmt.Sprintf("%s:%d", ci.File, ci.Line))
	}
	seen := map[string]int{}
	site := strings.TrimPrefix(e.ordinalName(in, "return"), "safe:")
	for _, en := range e.contract.Ensures {
		g, cerr := env.tryEvalBool(en.E)
		if cerr != "" {
			if strings.HasPrefix(cerr, "unknown identifier ") && e.isLocalName(strings.Trim(strings.TrimPrefix(cerr, "unknown identifier "), "\"")) {
				// a local variable of this function that is not defined on this
				// return path: the clause says nothing here
				continue
			}
			e.stale[fmt.Sprintf("ensures[%s] of %s cannot be evaluated (%s)", strings.Join(en.Labels, ","), e.unit, cerr)] = true
			continue
		}
		lbl := strings.Join(en.Labels, ",")
		seen[lbl]++
		name := fmt.Sprintf("ensures[%s]", lbl)
		if lbl == "" {
			name = fmt.Sprintf("ensures#%d", seen[lbl])
		} else if seen[lbl] > 1 {
			name = fmt.Sprintf("ensures[%s]#%d", lbl, seen[lbl])
		}
		n0 := len(e.obls)
		e.emit(st, name, "ensures", en.Labels, g, fmt.Sprintf("%s:%d", en.File, en.Line))
		for _, o := range e.obls[n0:] {
			o.Site = site
			o.Try = en.Try
		}
	}
	e.checkFrame(st, fr, env)
	e.emitCover(st, "cover:"+site, e.where(in))
}

// checkFrame emits obligations that nothing outside `assigns` changed.
func (e *Exec) checkFrame(st *State, fr *Frame, env *Env) {
	c := e.contract
	if c.AssignAll {
		return
	}
	// resolve allowed locations in the pre-state
	type rng struct {
		reg    *Region
		lo, hi T
		all    bool
	}
	var allowedLocs []string
	var allowedRanges []rng
	allowedGhost := map[string]bool{}
	pre := &Env{e: e, st: e.pre, old: e.pre, fr: fr, vars: env.vars, pos: true, isOld: true}
	for _, a := range c.Assigns {
		switch x := a.E.(type) {
		case *ESlice:
			s := pre.sliceArg(x.X)
			if s.Reg == nil {
				continue
			}
			lo, hi := i64(0), s.Len
			if x.Lo != nil {
				lo = pre.idx64(x.Lo)
			}
			if x.Hi != nil {
				hi = pre.idx64(x.Hi)
			}
			allowedRanges = append(allowedRanges, rng{reg: s.Reg, lo: BVBin("bvadd", s.Base, lo), hi: BVBin("bvadd", s.Base, hi)})
		case *ECall:
			if x.Fn == "mem" && len(x.Args) == 1 {
				s := pre.sliceArg(x.Args[0])
				if s.Reg != nil {
					allowedRanges = append(allowedRanges, rng{reg: s.Reg, all: true})
				}
			}
			if x.Fn == "reslice" && len(x.Args) == 1 {
				if sel, ok := x.Args[0].(*ESel); ok {
					if l := pre.locOf(sel); l != nil && l.Obj != nil {
						allowedLocs = append(allowedLocs, "obj:"+l.Obj.Name+":"+pathKey(l.Path))
						was, ok1 := e.load(e.pre, l, nil).(VSlice)
						now, ok2 := e.load(st, l, nil).(VSlice)
						g := False
						if ok1 && ok2 && was.Reg == now.Reg {
							g = And(BVCmp("bvsle", was.Base, now.Base), BVCmp("bvsle", now.Base, BVBin("bvadd", was.Base, was.Cap)),
								BVCmp("bvsle", BVBin("bvadd", now.Base, now.Cap), BVBin("bvadd", was.Base, was.Cap)))
						}
						e.emit(st, fmt.Sprintf("frame(reslice %s)", prettyLoc(l)), "frame", nil, g, "")
					}
				}
			}
		case *ESel:
			base := pre.eval(x.X)
			if vi, ok := base.(VIface); ok && vi.Obj != nil {
				allowedGhost[e.ghostKey(vi.Obj, x.Name)] = true
				continue
			}
			if l := pre.locOf(x); l != nil && l.Obj != nil {
				allowedLocs = append(allowedLocs, "obj:"+l.Obj.Name+":"+pathKey(l.Path))
			}
		case *EIdent:
			if strings.HasPrefix(x.Name, "g_") {
				allowedGhost[x.Name] = true
				continue
			}
			isFV := false
			for _, fv := range e.fn.FreeVars {
				if fv.Name() == x.Name {
					if p, ok := fr.Vals[fv].(VPtr); ok && p.Loc != nil && p.Loc.Obj != nil {
						allowedLocs = append(allowedLocs, "obj:"+p.Loc.Obj.Name+":"+pathKey(p.Loc.Path))
						isFV = true
					}
				}
			}
			if isFV {
				continue
			}
			if p, ok := pre.eval(x).(VPtr); ok && p.Loc != nil && p.Loc.Obj != nil {
				allowedLocs = append(allowedLocs, "obj:"+p.Loc.Obj.Name+":"+pathKey(p.Loc.Path))
			}
		}
	}
	covered := func(w string) bool {
		for _, a := range allowedLocs {
			if w == a || strings.HasPrefix(w, a+".") || (strings.HasSuffix(a, ":") && strings.HasPrefix(w, a)) {
				return true
			}
		}
		return false
	}
	var ws []string
	for w := range st.Writes {
		ws = append(ws, w)
	}
	sort.Strings(ws)
	for _, w := range ws {
		switch {
		case strings.HasPrefix(w, "obj:"):
			l := e.allLocs[w]
			if l == nil || !l.Obj.Lazy {
				continue // local allocation
			}
			if strings.Contains(l.Obj.Name, ".result") && strings.Contains(l.Obj.Name, "!c") {
				continue // object returned by a callee during this call: not part of the pre-state
			}
			if strings.Contains(l.Obj.Name, "~c") || strings.Contains(l.Obj.Name, "~L") {
				// object first reached through a pointer that a callee contract (or a
				// loop) havocked: its contents are whatever that contract says, it is
				// not a location of this unit's pre-state
				continue
			}
			if strings.HasPrefix(l.Obj.Name, "G:") && false {
				continue
			}
			if covered(w) {
				continue
			}
			typ := typeAtPath(l.Obj.Typ, l.Path)
			now := e.load(st, l, typ)
			was := e.load(e.pre, l, typ)
			g, ok := valueEq(now, was)
			if !ok {
				g = False
			}
			e.emit(st, fmt.Sprintf("frame(%s)", prettyLoc(l)), "frame", nil, g, "")
		case strings.HasPrefix(w, "reg:"):
			r := e.allRegs[w[4:]]
			if r == nil {
				continue
			}
			if lr, ok := e.lazyRegs[r.Name]; !ok || lr != r || r.Derived {
				continue // allocated by this unit
			}
			if strings.Contains(r.Name, "~c") || strings.Contains(r.Name, "~L") {
				// region introduced by a callee contract's havoc: its
				// modification is accounted for by the callee's own frame
				continue
			}
			es, ok := elemSort(r.Elem)
			if !ok {
				continue
			}
			now := e.regArr(st, r, "", es)
			was := e.regArr(e.pre, r, "", es)
			if now.S == was.S {
				continue
			}
			k := e.fresh("sk_frame", BV64)
			var outs []T
			all := false
			for _, ar := range allowedRanges {
				if ar.reg != r {
					continue
				}
				if ar.all {
					all = true
					break
				}
				outs = append(outs, Or(BVCmp("bvslt", k, ar.lo), BVCmp("bvsge", k, ar.hi)))
			}
			if all {
				continue
			}
			g := Implies(And(outs...), Eq(Select(now, k), Select(was, k)))
			e.emit(st, fmt.Sprintf("frame(mem %s)", r.Name), "frame", nil, g, "")
		case strings.HasPrefix(w, "ghost:"):
			key := w[6:]
			if strings.HasPrefix(key, "map:") || strings.HasPrefix(key, "iter#") {
				// maps: only lazily materialised (pre-existing) ones matter
				if !strings.HasPrefix(key, "map:") {
					continue
				}
				parts := strings.Split(key, ":")
				if len(parts) < 3 {
					continue
				}
				if _, pre := e.lazyObjs[parts[1]]; !pre {
					continue
				}
				if strings.Contains(parts[1], "!c") || strings.Contains(parts[1], "~c") || strings.Contains(parts[1], "~L") {
					continue // map returned by a callee during this call: not part of the pre-state
				}
				if c.Extra["assigns-maps"] != nil {
					continue
				}
				e.emit(st, fmt.Sprintf("frame(%s)", key), "frame", nil, False, "")
				continue
			}
			if allowedGhost[key] || strings.HasPrefix(key, "g_under_") || strings.HasPrefix(key, "counter:") || strings.HasPrefix(key, "g_obs_") {
				continue
			}
			if (strings.Contains(key, ".result") && strings.Contains(key, "!c")) || strings.Contains(key, "~c") || strings.Contains(key, "~L") {
				// ghost state of an object returned by a callee during this
				// call: not part of the pre-state
				continue
			}
			now, have := st.Ghost[key]
			if !have {
				continue
			}
			was, had := e.pre.Ghost[key]
			if !had && strings.HasPrefix(key, "g_") {
				was = e.ghostGlobal(e.pre, key)
				had = true
			}
			if !had {
				// initial symbolic value
				obj, name := splitGhostKey(key)
				if o := e.lazyObjs[obj]; o != nil {
					was = e.ghostGet(e.pre, o, name)
				}
			}
			if was == nil {
				continue
			}
			g, ok := valueEq(now, was)
			if !ok {
				g = False
			}
			e.emit(st, fmt.Sprintf("frame(ghost %s)", key), "frame", nil, g, "")
		}
	}
}

func splitGhostKey(k string) (string, string) {
	i := strings.LastIndex(k, "#")
	if i < 0 {
		return k, ""
	}
	return k[:i], k[i+1:]
}

func prettyLoc(l *Loc) string {
	t := l.Obj.Typ
	s := strings.TrimSuffix(l.Obj.Name, "^")
	for _, i := range l.Path {
		st := structOf(t)
		if st == nil {
			s += fmt.Sprintf(".%d", i)
			continue
		}
		s += "." + st.Field(i).Name()
		t = st.Field(i).Type()
	}
	return s
}

// valueEq builds equality of two symbolic values where expressible.
func valueEq(a, b Value) (T, bool) {
	switch x := a.(type) {
	case VInt:
		if y, ok := b.(VInt); ok && x.T.Sort.Eq(y.T.Sort) {
			return Eq(x.T, y.T), true
		}
	case VBool:
		if y, ok := b.(VBool); ok {
			return Eq(x.T, y.T), true
		}
	case VErr:
		if y, ok := b.(VErr); ok {
			return Eq(x.T, y.T), true
		}
	case VStr:
		if y, ok := b.(VStr); ok {
			return Eq(x.T, y.T), true
		}
	case VOpaque:
		if y, ok := b.(VOpaque); ok {
			return Eq(x.T, y.T), true
		}
	case VSlice:
		if y, ok := b.(VSlice); ok && x.Reg == y.Reg {
			return And(Eq(x.Base, y.Base), Eq(x.Len, y.Len), Eq(x.Cap, y.Cap), Eq(x.Nil, y.Nil)), true
		}
	case VPtr:
		if y, ok := b.(VPtr); ok {
			if x.Loc == nil && y.Loc == nil {
				return Eq(x.Nil, y.Nil), true
			}
			if x.Loc != nil && y.Loc != nil && x.Loc.String() == y.Loc.String() {
				return Eq(x.Nil, y.Nil), true
			}
		}
	case VIface:
		if y, ok := b.(VIface); ok {
			if x.Obj != nil && x.Obj == y.Obj {
				return Eq(x.Nil, y.Nil), true
			}
			if x.Dyn != nil && y.Dyn != nil && types.Identical(x.Dyn, y.Dyn) {
				if g, ok := valueEq(x.Val, y.Val); ok {
					return And(Eq(x.Nil, y.Nil), g), true
				}
			}
		}
	case VStruct:
		if y, ok := b.(VStruct); ok && len(x.F) == len(y.F) {
			if x.Key != "" && x.Key == y.Key {
				same := true
				for i := range x.F {
					if x.F[i] != nil || y.F[i] != nil {
						same = false
					}
				}
				if same {
					return True, true
				}
			}
		}
	case VTerm:
		if y, ok := b.(VTerm); ok && x.T.Sort.Eq(y.T.Sort) {
			return Eq(x.T, y.T), true
		}
	}
	return False, false
}


// valEq is structural equality of two contract-level values (ghost argument
// conformance): scalars by value, structs field-wise, references by identity.
func (e *Exec) valEq(a, b Value) T {
	switch x := a.(type) {
	case VInt:
		if y, ok := b.(VInt); ok {
			if x.Untyped && !y.Untyped {
				x = coerceUntyped(x, y.T.Sort.W, y.Signed)
			} else if y.Untyped && !x.Untyped {
				y = coerceUntyped(y, x.T.Sort.W, x.Signed)
			}
			if x.T.Sort.W == y.T.Sort.W {
				return Eq(x.T, y.T)
			}
		}
		return False
	case VBool:
		if y, ok := b.(VBool); ok {
			return Eq(x.T, y.T)
		}
		return False
	case VOpaque:
		if y, ok := b.(VOpaque); ok {
			return Eq(x.T, y.T)
		}
		return False
	case VStr:
		if y, ok := b.(VStr); ok {
			return Eq(x.T, y.T)
		}
		return False
	case VErr:
		if y, ok := b.(VErr); ok {
			return Eq(x.T, y.T)
		}
		return False
	case VStruct:
		y, ok := b.(VStruct)
		if !ok || !types.Identical(x.Typ, y.Typ) {
			return False
		}
		g := True
		for i := 0; i < structOf(x.Typ).NumFields(); i++ {
			g = And(g, e.valEq(e.fieldOf(x, i), e.fieldOf(y, i)))
		}
		return g
	case VSMap:
		if y, ok := b.(VSMap); ok {
			if x.Reg == y.Reg {
				return Eq(x.Nil, y.Nil)
			}
			return And(x.Nil, y.Nil)
		}
		return False
	}
	return e.refEq(a, b)
}


// isLocalName reports whether name is a local variable of the unit (it has a
// debug reference somewhere in the function).
func (e *Exec) isLocalName(name string) bool {
	if e.localNames == nil {
		e.localNames = map[string]bool{}
		for _, b := range e.fn.Blocks {
			for _, in := range b.Instrs {
				if d, ok := in.(*ssa.DebugRef); ok {
					if id, ok := d.Expr.(*ast.Ident); ok {
						e.localNames[id.Name] = true
					}
				}
			}
		}
	}
	return e.localNames[name]
}


// ifaceMethodSig finds the signature of the interface method named by a
// contract key such as "types.SegmentWriter.Append".
func (p *Prog) ifaceMethodSig(key string) *types.Signature {
	parts := strings.Split(key, ".")
	if len(parts) != 3 {
		return nil
	}
	for _, sp := range p.prog.AllPackages() {
		if sp.Pkg.Name() != parts[0] || strings.Contains(sp.Pkg.Path(), "internal/") {
			continue
		}
		obj := sp.Pkg.Scope().Lookup(parts[1])
		if obj == nil {
			continue
		}
		if _, ok := obj.Type().Underlying().(*types.Interface); !ok {
			continue
		}
		m, _, _ := types.LookupFieldOrMethod(obj.Type(), true, sp.Pkg, parts[2])
		if f, ok := m.(*types.Func); ok {
			return f.Type().(*types.Signature)
		}
	}
	return nil
}

// emitRefinements: `refines K` on a concrete method. At every return the
// postconditions of the interface-method contract K are proved with `self`
// bound to the receiver, so that the ghost fields of the interface view
// (self.last, self.sealed, ...) read through the type's `coupling`
// definitions, in the post-state and (under old()) in the pre-state. Ghost
// fields K does not list in its `assigns` must keep their coupled value.
// Clauses labelled assumed-* are not part of the refinement (they stay
// assumptions and are listed as such).
func (e *Exec) emitRefinements(st *State, fr *Frame, res Value, in *ssa.Return) {
	if e.contract == nil || len(e.contract.Refines) == 0 || len(e.fn.Params) == 0 {
		return
	}
	if e.refineNotes == nil {
		e.refineNotes = map[string]bool{}
	}
	site := strings.TrimPrefix(e.ordinalName(in, "return"), "safe:")
	for _, key := range e.contract.Refines {
		ic := e.prog.contracts.Funcs[key]
		if ic == nil || !ic.IsIface {
			panic(contractError{"refines: unknown interface contract " + key})
		}
		sig := e.prog.ifaceMethodSig(key)
		if sig == nil {
			panic(contractError{"refines: cannot find interface method " + key})
		}
		if sig.Params().Len() != len(e.fn.Params)-1 {
			panic(contractError{"refines: arity of " + key + " differs from " + e.unit})
		}
		env := &Env{e: e, st: st, old: e.pre, fr: nil, vars: map[string]Value{}, pos: true, pkgName: ic.Pkg}
		bind := func(p *ssa.Parameter) Value {
			if v, ok := e.params[p.Name()]; ok {
				return v
			}
			return fr.Vals[p]
		}
		recv := bind(e.fn.Params[0])
		env.vars["self"] = recv
		for i := 0; i < sig.Params().Len(); i++ {
			n := sig.Params().At(i).Name()
			if n == "" || n == "_" {
				n = fmt.Sprintf("arg%d", i)
			}
			env.vars[n] = bind(e.fn.Params[i+1])
		}
		env.bindResult(res)
		mark := func(n0 int) {
			for _, o := range e.obls[n0:] {
				o.Site = site
				o.RefinesKey = key
			}
		}
		for i, en := range ic.Ensures {
			assumed := false
			for _, l := range en.Labels {
				if strings.HasPrefix(l, "assumed-") {
					assumed = true
				}
			}
			if assumed {
				e.refineNotes[fmt.Sprintf("%s: clause [%s] stays an assumption (not part of the refinement by %s)", key, strings.Join(en.Labels, ","), e.unit)] = true
				continue
			}
			g, cerr := env.tryEvalBool(en.E)
			if cerr != "" {
				if !e.refineNotes[fmt.Sprintf("%s: ensures#%d cannot be read through the coupling of %s (%s): not linked", key, i+1, e.unit, cerr)] {
					e.refineGaps[key]++
				}
				e.refineNotes[fmt.Sprintf("%s: ensures#%d cannot be read through the coupling of %s (%s): not linked", key, i+1, e.unit, cerr)] = true
				continue
			}
			name := fmt.Sprintf("refines(%s)/ensures#%d", key, i+1)
			if len(en.Labels) > 0 {
				name = fmt.Sprintf("refines(%s)/ensures[%s]", key, strings.Join(en.Labels, ","))
			}
			n0 := len(e.obls)
			e.emit(st, name, "refines", nil, g, fmt.Sprintf("%s:%d", en.File, en.Line))
			mark(n0)
		}
		// frame of the abstraction: coupled ghost fields the interface contract
		// does not assign keep their value
		var tk string
		if p, ok := recv.(VPtr); ok {
			if nt := namedOf(p.Elem); nt != nil && nt.Obj().Pkg() != nil {
				tk = nt.Obj().Pkg().Name() + "." + nt.Obj().Name()
			}
		}
		assigned := map[string]bool{}
		for _, a := range ic.Assigns {
			if sel, ok := a.E.(*ESel); ok {
				if id, ok := sel.X.(*EIdent); ok && id.Name == "self" {
					assigned[sel.Name] = true
				}
			}
		}
		var fields []string
		for f := range e.prog.contracts.Couplings[tk] {
			fields = append(fields, f)
		}
		sort.Strings(fields)
		for _, f := range fields {
			if assigned[f] || ic.AssignAll {
				continue
			}
			x := &ESel{X: &EIdent{Name: "self"}, Name: f}
			cur, cerr := env.tryEval(x)
			if cerr != "" {
				continue
			}
			old, cerr := env.tryEval(&EOld{X: x})
			if cerr != "" {
				continue
			}
			n0 := len(e.obls)
			e.emit(st, fmt.Sprintf("refines(%s)/frame(self.%s)", key, f), "refines", nil, e.valEq(cur, old), fmt.Sprintf("%s:%d", ic.File, ic.Line))
			mark(n0)
		}
		if len(ic.GhostSet) > 0 {
			e.refineNotes[fmt.Sprintf("%s: ghost counter updates (%d ghostset clauses) are bookkeeping of the caller-side model and not part of the refinement", key, len(ic.GhostSet))] = true
		}
		var reqs []string
		for _, rq := range e.contract.Requires {
			reqs = append(reqs, rq.Src)
		}
		if len(reqs) > 0 {
			e.refineNotes[fmt.Sprintf("%s <= %s holds under the implementation's own preconditions (representation invariant at entry, established by its constructors and preserved by its methods; size headroom): %s", key, e.unit, strings.Join(reqs, " && "))] = true
		}
	}
}
