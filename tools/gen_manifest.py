#!/usr/bin/env python3
"""Generates /verif/MANIFEST.json from the claims table in /verif/tools/claims.json."""
import json, os
here = os.path.dirname(os.path.abspath(__file__))
claims = json.load(open(os.path.join(here, "claims.json")))
props = [json.loads(l) for l in open("/verif/properties.jsonl")]
ids = [p["id"] for p in props]
import subprocess
try:
    out = subprocess.run(["git", "-C", "/repo", "log", "--format=%h %s"], capture_output=True, text=True).stdout
    hook_commits = [l.split()[0] for l in out.splitlines() if " verif hook" in l][::-1]
except Exception:
    hook_commits = claims.get("_hook_commits", [])
checks = []
na = []
for pid in ids:
    c = claims.get(pid)
    if c is None or c.get("not_applicable"):
        na.append({"property_id": pid, "reason": (c or {}).get("not_applicable", "not claimed yet: no contract set for this property has been built and validated")})
        continue
    checks.append({
        "property_id": pid,
        "quick_cmd": f"/verif/bin/walvc check --property {pid} --tier quick",
        "thorough_cmd": f"/verif/bin/walvc check --property {pid} --tier thorough",
        "evidence_file": f"/verif/evidence/{pid}.json",
        "replay_cmd_template": "/verif/bin/walvc replay {path}",
        "engine": "walvc",
        "level_claimed": {"category": "proof", "text": c["text"], "design_ref": c.get("design_ref", "DESIGN.md §5 " + pid)},
        "level_note": c["note"],
        "technique": c.get("technique", "contract-based deductive verification: weakest-precondition style VC generation over go/ssa of the real code, contracts as //@ comments, obligations discharged by z3/z3-new/cvc5"),
    })
m = {
    "version": 1,
    "setup_cmd": "cd /verif/vc && GOFLAGS=-mod=vendor GOPROXY=off GOSUMDB=off GOTOOLCHAIN=local go build -o /verif/bin/walvc .",
    "hooks": {
        "guard": "verif",
        "enable": "go build -tags verif ./... (the tag only adds comment-only contracts_verif.go files; walvc loads /repo with -tags=verif)",
        "baseline_off_cmd": "cd /repo && GOFLAGS=-mod=mod GOPROXY=off GOSUMDB=off go test -json -vet=off -count=1 -timeout 25m ./...",
        "source_commits": hook_commits,
        "add_only": True,
    },
    "engines": [{"name": "walvc", "path": "/verif/vc", "serves_properties": [c["property_id"] for c in checks],
                 "kind_free_text": "self-written verification-condition generator for Go (symbolic execution of go/ssa with contracts, loop invariants, frames, ghost state) + SMT portfolio"}],
    "checks": checks,
    "not_applicable": na,
    "notes": claims.get("_notes", ""),
}
json.dump(m, open("/verif/MANIFEST.json", "w"), indent=1)
print("checks:", [c["property_id"] for c in checks], "n/a:", [n["property_id"] for n in na])
