#!/bin/bash
# usage: overlay_test.sh <repo-dir> <pkg-rel-dir> <test-file> <TestRegex>
# Runs an in-package test injected through `go test -overlay` (nothing is written into the repo).
set -u
REPO="$1"; PKG="$2"; FILE="$3"; RUN="$4"
export GOFLAGS=-mod=mod GOPROXY=off GOSUMDB=off GOTOOLCHAIN=local
TMP=$(mktemp -d)
trap 'rm -rf "$TMP"' EXIT
BASE=$(basename "$FILE")
cat > "$TMP/ov.json" <<JSON
{"Replace": {"$REPO/$PKG/zz_$BASE": "$FILE"}}
JSON
cd "$REPO/$PKG" && go test -overlay "$TMP/ov.json" -vet=off -count=1 -timeout 120s -run "$RUN" -v . 2>&1
