#!/bin/bash
# Runs every claimed check (quick tier) and prints one line per property.
cd /verif
for p in $(python3 -c "import json; print(' '.join(c['property_id'] for c in json.load(open('/verif/MANIFEST.json'))['checks']))"); do
  out=$(./bin/walvc check --property $p --tier ${1:-quick} 2>&1); rc=$?
  echo "$p exit=$rc $(echo "$out" | tail -1)"
  echo "$out" | grep -E "VIOLATION|UNDECIDED|failed obligation" | head -10
done
