#!/bin/bash
# usage: seed_setup.sh <dir>  -- scratch worktree of /repo HEAD with the contract files removed (committed locally in the
# worktree's detached HEAD so that `git diff HEAD` is the seeded change alone)
set -e
D="$1"
git -C /repo worktree prune
git -C /repo worktree add -q --detach "$D" HEAD
cd "$D"
git rm -q $(git ls-files | grep contracts_verif.go)
git -c user.name=seed -c user.email=seed@localhost commit -q -m "scratch: contract files removed for the seeding agent"
mkdir -p SEED
echo "$D ready"
