#!/bin/bash
# usage: seed_eval.sh <seed-worktree> <seed-name> <prop> [more props...]
# 1. confirms the seeded change in a scratch worktree of /repo (builds, suite passes, demo fails with / passes without)
# 2. applies it to /repo, runs the given property checks, undoes it
# 3. stores /verif/seeded/<seed-name>/{patch.diff,demo test,meta.json}
set -u
SRC="$1"; NAME="$2"; shift 2; PROPS="$@"
export GOFLAGS=-mod=mod GOPROXY=off GOSUMDB=off GOTOOLCHAIN=local
OUT=/verif/seeded/$NAME; mkdir -p "$OUT"
PKG=$(cat "$SRC/SEED/pkg.txt" | tr -d '[:space:]')
DEMO=$(ls "$SRC"/SEED/*_test.go | head -1)
cp "$SRC/SEED/patch.diff" "$OUT/patch.diff"; cp "$DEMO" "$OUT/"; cp "$SRC/SEED/notes.md" "$OUT/notes.md" 2>/dev/null
CHK=/tmp/chk_$NAME; rm -rf "$CHK"; git -C /repo worktree prune; git -C /repo worktree add -q --detach "$CHK" HEAD || exit 2
cd "$CHK"
APPLY=ok; git apply "$OUT/patch.diff" || APPLY=failed
cp "$DEMO" "$CHK/$PKG/"
TESTNAME=$(grep -o 'func TestSeed[A-Za-z0-9_]*' "$DEMO" | head -1 | sed 's/func //')
BUILD=ok; go build ./... >/dev/null 2>&1 || BUILD=failed
SUITE=pass; go test -vet=off -count=1 -skip "$TESTNAME" ./... >/tmp/chk_$NAME.suite 2>&1 || SUITE=fail
DEMO_WITH=pass; (cd "$PKG" && go test -vet=off -count=1 -run "^$TESTNAME\$" . >/tmp/chk_$NAME.with 2>&1) || DEMO_WITH=fail
git apply -R "$OUT/patch.diff"
DEMO_WITHOUT=pass; (cd "$PKG" && go test -vet=off -count=1 -run "^$TESTNAME\$" . >/tmp/chk_$NAME.without 2>&1) || DEMO_WITHOUT=fail
cd /; git -C /repo worktree remove --force "$CHK"
echo "confirm: apply=$APPLY build=$BUILD suite=$SUITE demo_with_change=$DEMO_WITH demo_without_change=$DEMO_WITHOUT"
# run checks on /repo with the change applied
RES=""
if [ "$APPLY" = ok ]; then
  git -C /repo apply "$OUT/patch.diff"
  for p in $PROPS; do
    o=$(cd /verif && ./bin/walvc check --property $p 2>&1); rc=$?
    v=$(echo "$o" | grep -c '^VIOLATION')
    first=$(echo "$o" | grep 'failed obligation' | head -3 | sed 's/^ *//' | tr '\n' ';')
    echo "check $p: exit=$rc violations=$v $first"
    RES="$RES{\"property\":\"$p\",\"exit\":$rc,\"violation_lines\":$v,\"first_failed\":\"$(echo $first | sed 's/"/\\"/g')\"},"
  done
  git -C /repo checkout -- .
  # restore evidence produced on the unchanged tree later
fi
cat > "$OUT/meta.json" <<JSON
{"name":"$NAME","package":"$PKG","demo_test":"$(basename $DEMO)","demo_test_func":"$TESTNAME",
 "confirmed":{"applies":"$APPLY","builds":"$BUILD","existing_suite":"$SUITE","demo_with_change":"$DEMO_WITH","demo_without_change":"$DEMO_WITHOUT"},
 "checks_run":[${RES%,}],
 "ran":"tools/seed_eval.sh $SRC $NAME $PROPS"}
JSON
git -C /repo status --short | head -3
