#!/usr/bin/env python3
# usage: seed_meta.py <name> <prop> <change> <needs> <detected_by> <expect-prop>:<obligation-substring>:<outcome> [more expects...]
import json,sys
name,prop,change,needs,det=sys.argv[1:6]
p=f'/verif/seeded/{name}/meta.json'
m=json.load(open(p))
m['breaks_property']=prop; m['change']=change; m['needs_to_manifest']=needs; m['detected_by']=det
m['expect']=[{'property':e.split(':',1)[0],'obligation':e.split(':',1)[1].rsplit(':',1)[0],'outcome':e.rsplit(':',1)[1]} for e in sys.argv[6:]]
m['origin']='written by an independent sub-agent that saw only the property text and a scratch worktree without the contract files'
json.dump(m,open(p,'w'),indent=1)
print(json.dumps(m['expect']))
