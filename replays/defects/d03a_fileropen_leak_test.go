package segment

// D3a (C11 "a failed Open leaves nothing ... open"): Filer.Open leaves the
// segment file descriptor open on every error return after OpenReader.

import (
	"os"
	"path/filepath"
	"strings"
	"testing"

	"github.com/hashicorp/raft-wal/fs"
	"github.com/hashicorp/raft-wal/types"
)

func openFDsFor(t *testing.T, path string) int {
	ents, err := os.ReadDir("/proc/self/fd")
	if err != nil {
		t.Skip("no /proc")
	}
	n := 0
	for _, e := range ents {
		if l, err := os.Readlink(filepath.Join("/proc/self/fd", e.Name())); err == nil && strings.HasSuffix(l, path) {
			n++
		}
	}
	return n
}

func TestReplayD03aFilerOpenLeak(t *testing.T) {
	dir := t.TempDir()
	f := NewFiler(dir, fs.New())
	info := types.SegmentInfo{BaseIndex: 1, ID: 7, MinIndex: 1, Codec: 1, SizeLimit: 4096}
	// a sealed segment file carrying the header of a different segment
	other := info
	other.ID = 8
	hdr := make([]byte, 64)
	if err := writeFileHeader(hdr, other); err != nil {
		t.Fatal(err)
	}
	name := FileName(info)
	if err := os.WriteFile(filepath.Join(dir, name), hdr, 0644); err != nil {
		t.Fatal(err)
	}
	_, err := f.Open(info)
	if err == nil {
		t.Fatal("expected header mismatch error")
	}
	if n := openFDsFor(t, name); n != 0 {
		t.Fatalf("REPLAY-CONFIRMED C11: Filer.Open returned %q but left %d descriptor(s) of %s open", err, n, name)
	}
	t.Logf("REPLAY-NOT-REPRODUCED: no descriptor left open")
}
