package metrics

import (
	"testing"
)

// C20: "the bundled collectors never panic". GoMetricsCollector documents that
// "The zero value works, writing metrics to the default global instance", but
// the zero value has gm == nil and both methods dereference it, so the first
// metric the WAL emits (inside StoreLogs / Open) panics.
func TestReview2GoMetricsCollectorZeroValue(t *testing.T) {
	var c Collector = &GoMetricsCollector{}

	func() {
		defer func() {
			if r := recover(); r != nil {
				t.Errorf("IncrementCounter on documented-usable zero value panicked: %v", r)
			}
		}()
		c.IncrementCounter("log_entries_written", 1)
	}()

	func() {
		defer func() {
			if r := recover(); r != nil {
				t.Errorf("SetGauge on documented-usable zero value panicked: %v", r)
			}
		}()
		c.SetGauge("last_segment_age_seconds", 1)
	}()
}
