package migrate

import (
	"context"
	"path/filepath"
	"testing"

	"github.com/hashicorp/raft"
	raftboltdb "github.com/hashicorp/raft-boltdb/v2"
	"github.com/stretchr/testify/require"
)

// C19: CopyStable must transfer the standard raft keys for every source /
// destination pairing. The two stores hashicorp/raft users actually migrate
// from (raft-boltdb and raft.InmemStore) report a key that was never written
// with the error "not found" (raft itself special-cases that error). A node
// that has a CurrentTerm but never cast a vote has no LastVoteTerm /
// LastVoteCand, and CopyStable aborts on the first such key instead of
// treating it as absent, so the stable store of such a node cannot be migrated.
func TestReview1CopyStableSourceWithoutVoteKeys(t *testing.T) {
	t.Run("raft-boltdb source", func(t *testing.T) {
		src, err := raftboltdb.NewBoltStore(filepath.Join(t.TempDir(), "raft.db"))
		require.NoError(t, err)
		defer src.Close()
		require.NoError(t, src.SetUint64([]byte("CurrentTerm"), 5))

		dst := newTestStableStore()
		progress := make(chan string, 16)
		err = CopyStable(context.Background(), dst, src, nil, nil, progress)
		require.NoError(t, err, "CopyStable must cope with a source that never voted")

		got, err := dst.GetUint64([]byte("CurrentTerm"))
		require.NoError(t, err)
		require.Equal(t, uint64(5), got)
	})

	t.Run("InmemStore source, extra key never written", func(t *testing.T) {
		src := raft.NewInmemStore()
		require.NoError(t, src.SetUint64([]byte("CurrentTerm"), 5))
		require.NoError(t, src.SetUint64([]byte("LastVoteTerm"), 4))
		require.NoError(t, src.Set([]byte("LastVoteCand"), []byte("s1")))

		dst := newTestStableStore()
		err := CopyStable(context.Background(), dst, src, [][]byte{[]byte("app_key_never_set")}, nil, nil)
		require.NoError(t, err, "an extra key that is absent in the source must not abort the copy")

		got, err := dst.Get([]byte("LastVoteCand"))
		require.NoError(t, err)
		require.Equal(t, "s1", string(got))
	})
}
