package verifier

// D17 (C17): Data and Extensions are hashed back to back without a delimiter,
// so two entries that differ in both fields get identical checksums with
// probability 1 (not a hash collision): a divergence inside a verified range
// goes undetected.

import (
	"testing"

	"github.com/hashicorp/raft"
)

func TestReplayD17StreamBoundary(t *testing.T) {
	a := &raft.Log{Index: 7, Term: 3, Type: raft.LogCommand, Data: []byte("ab"), Extensions: []byte("c")}
	b := &raft.Log{Index: 7, Term: 3, Type: raft.LogCommand, Data: []byte("a"), Extensions: []byte("bc")}
	for _, sum := range []uint64{0, 7, 0xdeadbeef} {
		if checksumLog(sum, a) != checksumLog(sum, b) {
			t.Logf("REPLAY-NOT-REPRODUCED: checksums differ")
			return
		}
	}
	t.Fatalf("REPLAY-CONFIRMED C17: entries (Data=%q,Ext=%q) and (Data=%q,Ext=%q) have identical checksums for every running sum", a.Data, a.Extensions, b.Data, b.Extensions)
}
