package wal

// D1 (C12): a WAL created with a custom codec cannot be reopened with that
// same codec: newSegment hard-codes CodecBinaryV1 in the segment metadata.

import (
	"io"
	"testing"

	"github.com/hashicorp/raft"
)

type replayCodec struct{ BinaryCodec }

func (c *replayCodec) ID() uint64                           { return 1 << 20 }
func (c *replayCodec) Encode(l *raft.Log, w io.Writer) error { return c.BinaryCodec.Encode(l, w) }
func (c *replayCodec) Decode(b []byte, l *raft.Log) error    { return c.BinaryCodec.Decode(b, l) }

func TestReplayD01CustomCodec(t *testing.T) {
	dir := t.TempDir()
	w, err := Open(dir, WithCodec(&replayCodec{}))
	if err != nil {
		t.Fatal(err)
	}
	if err := w.StoreLog(&raft.Log{Index: 1, Term: 1, Data: []byte("x")}); err != nil {
		t.Fatal(err)
	}
	if err := w.Close(); err != nil {
		t.Fatal(err)
	}
	w2, err := Open(dir, WithCodec(&replayCodec{}))
	if err != nil {
		t.Fatalf("REPLAY-CONFIRMED C12: reopening with the same custom codec fails: %v", err)
	}
	defer w2.Close()
	// and a directory written with a custom codec must be refused by the default codec
	w2.Close()
	if w3, err := Open(dir); err == nil {
		w3.Close()
		t.Fatalf("REPLAY-CONFIRMED C12: directory written with codec 1<<20 is accepted by the default codec")
	}
	t.Logf("REPLAY-NOT-REPRODUCED: custom codec round-trips across reopen")
}
