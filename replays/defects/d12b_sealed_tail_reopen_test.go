package wal

// D12b (C03): an append that fills the tail segment seals it inside
// segment.Writer.Append; the metadata commit of the rotation happens later in
// the background goroutine. If the process stops (Close, or a crash) in
// between, the metadata still lists the segment as the unsealed tail while its
// file already holds the index block. Open recovers that file, gets a writer
// that reports Sealed(), publishes it as the tail and never rotates: every
// StoreLogs afterwards fails with "segment is sealed" - permanently, also
// after further reopen cycles.
//
// The history below uses the real file system and the real segment files.

import (
	"testing"

	"github.com/hashicorp/raft"
)

func TestReplayD12bSealedTailReopen(t *testing.T) {
	tried := 0
	for attempt := 0; attempt < 25; attempt++ {
		dir := t.TempDir()
		w, err := Open(dir, WithSegmentSize(8*1024))
		if err != nil {
			t.Fatal(err)
		}
		idx := uint64(1)
		sealedSeen := false
		for idx < 64 {
			if err := w.StoreLogs([]*raft.Log{{Index: idx, Term: 1, Data: make([]byte, 1024)}}); err != nil {
				t.Fatalf("append %d: %v", idx, err)
			}
			idx++
			// stop right after the append that sealed the tail
			if sealed, _, _ := w.loadState().tail.Sealed(); sealed {
				sealedSeen = true
				break
			}
		}
		// the process stops before the background rotation committed
		if err := w.Close(); err != nil {
			t.Fatal(err)
		}
		if !sealedSeen {
			continue // the rotation goroutine won the race this time
		}
		w2, err := Open(dir, WithSegmentSize(8*1024))
		if err != nil {
			t.Fatalf("reopen: %v", err)
		}
		last, _ := w2.LastIndex()
		err1 := w2.StoreLogs([]*raft.Log{{Index: last + 1, Term: 1, Data: []byte("x")}})
		w2.Close()
		// a further clean reopen does not help either
		w3, err := Open(dir, WithSegmentSize(8*1024))
		if err != nil {
			t.Fatalf("second reopen: %v", err)
		}
		last3, _ := w3.LastIndex()
		err2 := w3.StoreLogs([]*raft.Log{{Index: last3 + 1, Term: 1, Data: []byte("x")}})
		w3.Close()
		if err1 != nil || err2 != nil {
			t.Fatalf("REPLAY-CONFIRMED C03: after reopen (last=%d) the recovered tail is sealed and StoreLogs(last+1) fails: %v; after a second reopen: %v", last, err1, err2)
		}
		tried++
	}
	t.Logf("REPLAY-NOT-REPRODUCED: in %d histories that stopped right after the sealing append, the reopened WAL accepted StoreLogs(last+1)", tried)
}
