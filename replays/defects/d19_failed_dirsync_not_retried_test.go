package fs

// D19 (C07/C10): File.Sync marks the file as "directory entry durable" (new=1)
// BEFORE the directory fsync has succeeded. If that fsync fails once, the
// error is returned - but every later Sync skips the directory, so a retry of
// the append is acknowledged although the directory entry of the new segment
// file was never made durable.

import (
	"os"
	"path/filepath"
	"testing"
)

func TestReplayD19FailedDirSyncNotRetried(t *testing.T) {
	base := t.TempDir()
	dir := filepath.Join(base, "wal")
	if err := os.Mkdir(dir, 0755); err != nil {
		t.Fatal(err)
	}
	vfs := New()
	wf, err := vfs.Create(dir, "00000000000000000001-0000000000000000.wal", 4096)
	if err != nil {
		t.Fatal(err)
	}
	defer wf.Close()
	if _, err := wf.WriteAt([]byte("batch-1"), 0); err != nil {
		t.Fatal(err)
	}
	// the directory fsync of the first Sync fails (the directory cannot be
	// opened by path; the file itself is synced through its descriptor)
	moved := filepath.Join(base, "wal.moved")
	if err := os.Rename(dir, moved); err != nil {
		t.Fatal(err)
	}
	err1 := wf.Sync()
	if err1 == nil {
		t.Skip("could not make the directory fsync fail on this platform")
	}
	// the caller retries the commit; the directory fsync still cannot succeed
	err2 := wf.Sync()
	if err2 == nil {
		t.Fatalf("REPLAY-CONFIRMED C07: first Sync failed in the directory fsync (%v); the retry returned nil without any directory fsync (the directory still cannot be opened)", err1)
	}
	t.Logf("REPLAY-NOT-REPRODUCED: the retry attempted the directory fsync again: %v", err2)
}
