package wal

// D16 (C14): Close publishes &state{} (nil segments, nil tail). A reader that
// passed the closed check just before Close and loads the state just after it
// dereferences nil: "calls racing with Close ... never panic" is violated.
// The interleaving is replayed deterministically by executing FirstIndex's own
// steps around a complete Close.

import (
	"testing"

	"github.com/hashicorp/raft"
)

func TestReplayD16ClosePublishesEmptyState(t *testing.T) {
	w, err := Open(t.TempDir())
	if err != nil {
		t.Fatal(err)
	}
	if err := w.StoreLog(&raft.Log{Index: 1, Term: 1, Data: []byte("x")}); err != nil {
		t.Fatal(err)
	}
	// reader: FirstIndex() step 1 — the closed check passes
	if err := w.checkClosed(); err != nil {
		t.Fatal(err)
	}
	// writer: Close() runs to completion in between
	if err := w.Close(); err != nil {
		t.Fatal(err)
	}
	// reader: FirstIndex() steps 2..3
	defer func() {
		if r := recover(); r != nil {
			t.Fatalf("REPLAY-CONFIRMED C14: FirstIndex racing with Close panics: %v", r)
		}
	}()
	s, release := w.acquireState()
	defer release()
	_ = s.firstIndex()
	t.Logf("REPLAY-NOT-REPRODUCED: no panic")
}
