package wal

// D4 (C20): truncateHeadLocked counts the entries of a dropped unsealed tail as
// maxIdx - MinIndex + 1 with maxIdx = lastIndex(). When the tail is empty (the
// common state right after a rotation) lastIndex() evaluated on the partly
// truncated state is 0, so the term underflows: the head_truncations counter
// loses the entries removed from the earlier segments, or jumps by almost 2^64.

import (
	"testing"

	"github.com/hashicorp/raft"
	"github.com/hashicorp/raft-wal/metrics"
)

func TestReplayD04HeadTruncationsUnderflow(t *testing.T) {
	m := metrics.NewAtomicCollector(MetricDefinitions)
	dir := t.TempDir()
	w, err := Open(dir, WithSegmentSize(4*1024), WithMetricsCollector(m))
	if err != nil {
		t.Fatal(err)
	}
	defer w.Close()
	// fill exactly one segment so that it seals and rotates: the new tail is empty
	idx := uint64(1)
	for {
		if err := w.StoreLogs([]*raft.Log{{Index: idx, Term: 1, Data: make([]byte, 512)}}); err != nil {
			t.Fatal(err)
		}
		idx++
		if sealed, _, _ := w.loadState().tail.Sealed(); sealed || idx > 64 {
			break
		}
	}
	// wait for the background rotation by taking the write path once more is not
	// wanted (it would put an entry in the new tail); DeleteRange waits for it.
	first, _ := w.FirstIndex()
	last, _ := w.LastIndex()
	if first != 1 || last == 0 {
		t.Fatalf("unexpected bounds %d..%d", first, last)
	}
	before := m.Summary().Counters["head_truncations"]
	if err := w.DeleteRange(0, last+10); err != nil { // removes every entry
		t.Fatal(err)
	}
	got := m.Summary().Counters["head_truncations"] - before
	if got != last-first+1 {
		t.Fatalf("REPLAY-CONFIRMED C20: DeleteRange removed the %d entries %d..%d but head_truncations grew by %d", last-first+1, first, last, got)
	}
	t.Logf("REPLAY-NOT-REPRODUCED: head_truncations grew by %d for %d removed entries", got, last-first+1)
}
