package wal

// Review finding 2 (C20): the truncation counters (and segment_rotations) are
// incremented inside the state transaction, before the metadata commit. When
// the commit fails the entries are not removed but stay counted, so after the
// caller's retry the counters exceed the number of entries actually removed.

import (
	"errors"
	"testing"

	"github.com/hashicorp/raft"
	"github.com/hashicorp/raft-wal/metadb"
	"github.com/hashicorp/raft-wal/metrics"
	"github.com/hashicorp/raft-wal/types"
)

var errReview2Injected = errors.New("review2: injected transient commit failure")

type review2Meta struct {
	types.MetaStore
	failNext int
}

func (m *review2Meta) CommitState(ps types.PersistentState) error {
	if m.failNext > 0 {
		m.failNext--
		return errReview2Injected
	}
	return m.MetaStore.CommitState(ps)
}

func TestReview2TruncationCountersCountFailedTruncations(t *testing.T) {
	dir := t.TempDir()
	meta := &review2Meta{MetaStore: &metadb.BoltMetaDB{}}
	mc := metrics.NewAtomicCollector(MetricDefinitions)
	w, err := Open(dir, WithSegmentSize(4096), WithMetaStore(meta), WithMetricsCollector(mc))
	if err != nil {
		t.Fatal(err)
	}
	defer w.Close()

	for idx := uint64(1); idx <= 10; idx++ {
		if err := w.StoreLog(&raft.Log{Index: idx, Data: []byte("x")}); err != nil {
			t.Fatal(err)
		}
	}

	// Head truncation of 1..3: first attempt fails in CommitState, retry works.
	meta.failNext = 1
	if err := w.DeleteRange(1, 3); !errors.Is(err, errReview2Injected) {
		t.Fatalf("expected injected error, got %v", err)
	}
	if first, _ := w.FirstIndex(); first != 1 {
		t.Fatalf("failed DeleteRange changed FirstIndex to %d", first)
	}
	afterFailedHead := mc.Summary().Counters["head_truncations"]
	if err := w.DeleteRange(1, 3); err != nil {
		t.Fatal(err)
	}

	// Tail truncation of 9..10: same pattern.
	meta.failNext = 1
	if err := w.DeleteRange(9, 10); !errors.Is(err, errReview2Injected) {
		t.Fatalf("expected injected error, got %v", err)
	}
	if last, _ := w.LastIndex(); last != 10 {
		t.Fatalf("failed DeleteRange changed LastIndex to %d", last)
	}
	afterFailedTail := mc.Summary().Counters["tail_truncations"]
	if err := w.DeleteRange(9, 10); err != nil {
		t.Fatal(err)
	}

	first, _ := w.FirstIndex()
	last, _ := w.LastIndex()
	if first != 4 || last != 8 {
		t.Fatalf("unexpected log bounds %d..%d", first, last)
	}

	c := mc.Summary().Counters
	if afterFailedHead != 0 || afterFailedTail != 0 || c["head_truncations"] != 3 || c["tail_truncations"] != 2 {
		t.Fatalf("3 entries were removed from the head and 2 from the tail, but head_truncations=%d tail_truncations=%d "+
			"(after the failed attempts alone, which removed nothing: head=%d tail=%d)",
			c["head_truncations"], c["tail_truncations"], afterFailedHead, afterFailedTail)
	}
}
