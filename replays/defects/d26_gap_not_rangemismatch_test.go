package verifier

import (
	"errors"
	"fmt"
	"testing"

	"github.com/hashicorp/raft"
	"github.com/hashicorp/raft-wal/metrics"
	"github.com/stretchr/testify/require"
)

// C16: "A node that lacks part of the range reports ErrRangeMismatch, not
// corruption [or any other failure]".
//
// The verifier wraps any raft.LogStore and explicitly shims IsMonotonic() for
// non-monotonic ones (raft-boltdb, raft.InmemStore). With such a store raft
// keeps TrailingLogs old entries when it installs a snapshot, so the follower's
// log legitimately has a hole: [old tail] ... gap ... [entries after snapshot].
// verify() only compares FirstIndex with Range.Start; FirstIndex still points
// at the old tail, so the check passes, GetLog hits the hole and the report
// carries a generic "unable to verify ... log not found" failure instead of
// ErrRangeMismatch.
func TestReview1GapInRangeIsNotReportedAsRangeMismatch(t *testing.T) {
	// Leader: plain in-package test store, 1..30, checkpoints at 20 and 30.
	leaderCh := make(chan VerificationReport, 10)
	leader := NewLogStore(&testStore{}, cpFn, func(r VerificationReport) { leaderCh <- r },
		metrics.NewAtomicCollector(MetricDefinitions))
	defer leader.Close()
	for idx := uint64(1); idx <= 30; idx++ {
		l := &raft.Log{Index: idx, Term: 1, Type: raft.LogCommand, Data: []byte(fmt.Sprintf("LOG(%d)", idx))}
		if idx == 20 || idx == 30 {
			l.Data = []byte("CHECKPOINT")
		}
		require.NoError(t, leader.StoreLog(l))
		if idx == 20 || idx == 30 {
			// Consume each report before going on so that none is dropped.
			r := assertReportDelivered(t, leaderCh)
			require.NoError(t, r.Err)
			require.Equal(t, idx, r.Range.End)
		}
	}

	// Follower: a real non-monotonic raft.LogStore.
	followerCh := make(chan VerificationReport, 10)
	inmem := raft.NewInmemStore()
	follower := NewLogStore(inmem, cpFn, func(r VerificationReport) { followerCh <- r },
		metrics.NewAtomicCollector(MetricDefinitions))
	defer follower.Close()
	require.False(t, follower.IsMonotonic())

	// It replicates 1..10, falls behind, and then installs a snapshot at index
	// 24. raft (non-monotonic store) compacts but keeps the trailing logs 6..10,
	// and replication continues at 25.
	replicate(t, leader, follower, 1, 10, 0)
	require.NoError(t, follower.DeleteRange(1, 5))
	replicate(t, leader, follower, 25, 30, 0)

	first, err := follower.FirstIndex()
	require.NoError(t, err)
	require.Equal(t, uint64(6), first)

	// The follower does not hold 20..24 of the checkpoint's range [20, 30). All
	// it does hold is intact, so the only acceptable outcome is ErrRangeMismatch.
	fr := assertReportDelivered(t, followerCh)
	require.Equal(t, LogRange{Start: 20, End: 30}, fr.Range)
	require.Error(t, fr.Err)
	require.Truef(t, errors.Is(fr.Err, ErrRangeMismatch),
		"node lacks 20..24 of the range and must report ErrRangeMismatch, got: %v", fr.Err)
}
