package segment

import (
	"encoding/binary"
	"hash/crc32"
	"os"
	"strings"
	"testing"

	"github.com/hashicorp/raft-wal/types"
)

// D23 (C09): TestReview2FirstCommitCRCCoverage decodes a freshly written
// segment using only what ../README.md documents about the range a commit
// frame's CRC covers. The original text read "since just after the last commit
// frame, or just after the file header" - but the writer includes the 32 header
// bytes in the first commit's CRC, so a decoder built from that text rejected
// the first commit of every segment. The test follows the README as it reads
// now (it starts the first batch at 0 only if the README says so).
func TestReview2FirstCommitCRCCoverage(t *testing.T) {
	vfs := newTestVFS()
	f := NewFiler("test", vfs)
	info := testSegment(1)
	w, err := f.Create(info)
	if err != nil {
		t.Fatal(err)
	}
	if err := w.Append([]types.LogEntry{{Index: 1, Data: []byte("hello")}}); err != nil {
		t.Fatal(err)
	}
	if err := w.Append([]types.LogEntry{{Index: 2, Data: []byte("world!")}}); err != nil {
		t.Fatal(err)
	}
	buf := testFileFor(t, w).getBuf()

	tab := crc32.MakeTable(crc32.Castagnoli)
	// README decoder: header is 32 bytes, frames are 8-byte aligned.
	off := 32
	batchStart := off // "just after the file header"
	if doc, err := os.ReadFile("../README.md"); err == nil &&
		strings.Contains(strings.Join(strings.Fields(string(doc)), " "), "since the start of the file: the file header is written as part of the first batch") {
		batchStart = 0 // the corrected README: the first commit covers the header
	}
	commits := 0
	for off+8 <= len(buf) {
		typ := buf[off]
		val := binary.LittleEndian.Uint32(buf[off+4 : off+8])
		if typ == 0 {
			break
		}
		if typ == 3 {
			commits++
			want := crc32.Checksum(buf[batchStart:off], tab)
			if want != val {
				t.Errorf("REPLAY-CONFIRMED C09: commit #%d at offset %d: stored CRC %08x, CRC over bytes [%d,%d) as documented is %08x (CRC over [0,%d) is %08x)",
					commits, off, val, batchStart, off, want, off, crc32.Checksum(buf[0:off], tab))
			}
			off += 8
			batchStart = off // "just after the last commit frame"
			continue
		}
		off += 8 + int(val+7)/8*8
	}
	if commits != 2 {
		t.Fatalf("expected 2 commit frames, found %d", commits)
	}
}
