package segment

import (
	"encoding/binary"
	"hash/crc32"
	"testing"

	"github.com/hashicorp/raft-wal/types"
)

// TestReview2FirstCommitCRCCoverage decodes a freshly written segment using
// only what README.md documents: "CRC32 (Castagnoli) over all bytes written
// since the last fsync. That is, since just after the last commit frame, or
// just after the file header."
func TestReview2FirstCommitCRCCoverage(t *testing.T) {
	vfs := newTestVFS()
	f := NewFiler("test", vfs)
	info := testSegment(1)
	w, err := f.Create(info)
	if err != nil {
		t.Fatal(err)
	}
	if err := w.Append([]types.LogEntry{{Index: 1, Data: []byte("hello")}}); err != nil {
		t.Fatal(err)
	}
	if err := w.Append([]types.LogEntry{{Index: 2, Data: []byte("world!")}}); err != nil {
		t.Fatal(err)
	}
	buf := testFileFor(t, w).getBuf()

	tab := crc32.MakeTable(crc32.Castagnoli)
	// README decoder: header is 32 bytes, frames are 8-byte aligned.
	off := 32
	batchStart := off // "just after the file header"
	commits := 0
	for off+8 <= len(buf) {
		typ := buf[off]
		val := binary.LittleEndian.Uint32(buf[off+4 : off+8])
		if typ == 0 {
			break
		}
		if typ == 3 {
			commits++
			want := crc32.Checksum(buf[batchStart:off], tab)
			if want != val {
				t.Errorf("commit #%d at offset %d: stored CRC %08x, CRC over bytes [%d,%d) as documented is %08x (CRC over [0,%d) is %08x)",
					commits, off, val, batchStart, off, want, off, crc32.Checksum(buf[0:off], tab))
			}
			off += 8
			batchStart = off // "just after the last commit frame"
			continue
		}
		off += 8 + int(val+7)/8*8
	}
	if commits != 2 {
		t.Fatalf("expected 2 commit frames, found %d", commits)
	}
}
