package fs

// D15 (C07) helper: process "2" of the scenario. A segment file exists whose
// creator died before its first commit (so the directory entry was never
// fsynced). The file is reopened through FS.OpenWriter, written and Sync()ed —
// which is what WAL recovery + the first StoreLogs do. The accompanying script
// d15_openwriter_no_dirsync.sh runs this under strace and checks that the
// containing directory is fsynced before Sync() returns.

import (
	"os"
	"path/filepath"
	"testing"
)

func TestReplayD15OpenWriter(t *testing.T) {
	dir := os.Getenv("D15_DIR")
	if dir == "" {
		t.Skip("run through d15_openwriter_no_dirsync.sh")
	}
	vfs := New()
	// "process 1": create, never sync, drop the handle (crash before first commit)
	wf, err := vfs.Create(dir, "00000000000000000001-0000000000000001.wal", 4096)
	if err != nil {
		t.Fatal(err)
	}
	wf.Close()
	// marker visible in the strace log
	os.Stat(filepath.Join(dir, "PHASE2-MARKER"))
	// "process 2": recovery reopens the tail and the first append syncs it
	w2, err := vfs.OpenWriter(dir, "00000000000000000001-0000000000000001.wal")
	if err != nil {
		t.Fatal(err)
	}
	if _, err := w2.WriteAt([]byte("first commit"), 0); err != nil {
		t.Fatal(err)
	}
	if err := w2.Sync(); err != nil {
		t.Fatal(err)
	}
	os.Stat(filepath.Join(dir, "ACK-MARKER"))
	w2.Close()
}
