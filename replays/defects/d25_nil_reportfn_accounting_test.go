package verifier

import (
	"fmt"
	"testing"

	"github.com/hashicorp/raft"
	"github.com/hashicorp/raft-wal/metrics"
	"github.com/stretchr/testify/require"
)

// C18 / C20: "every checkpoint produces exactly one delivered report or one
// counted drop" and "the counters equal the true totals".
//
// NewLogStore documents that ReportFn "may be left as nil to bypass
// verification". With a nil ReportFn runVerifier returns immediately, but
// StoreLogs still pushes a report for every checkpoint into verifyCh (buffer
// 1). The first report sits in the buffer for ever (neither delivered nor
// counted), and every later checkpoint is counted in dropped_reports ("the
// verifier routine was still busy ... consider increasing the interval")
// although no verifier is running at all.
func TestReview2NilReportFnCountsEveryCheckpointAsDropped(t *testing.T) {
	mc := metrics.NewAtomicCollector(MetricDefinitions)
	ls := NewLogStore(&testStore{}, cpFn, nil, mc)
	defer ls.Close()

	const nCheckpoints = 5
	idx := uint64(0)
	for cp := 0; cp < nCheckpoints; cp++ {
		for i := 0; i < 3; i++ {
			idx++
			require.NoError(t, ls.StoreLog(&raft.Log{Index: idx, Term: 1, Type: raft.LogCommand,
				Data: []byte(fmt.Sprintf("LOG(%d)", idx))}))
		}
		idx++
		require.NoError(t, ls.StoreLog(&raft.Log{Index: idx, Term: 1, Type: raft.LogCommand,
			Data: []byte("CHECKPOINT")}))
	}

	m := mc.Summary()
	written := m.Counters["checkpoints_written"]
	verified := m.Counters["ranges_verified"]
	dropped := m.Counters["dropped_reports"]
	require.Equal(t, uint64(nCheckpoints), written)
	require.Equal(t, uint64(0), verified)

	// Verification is bypassed: nothing was "too slow", so nothing may be
	// reported as dropped. (Even under the alternative reading that every
	// undelivered report is a drop the total is wrong: it is nCheckpoints-1.)
	require.Equalf(t, uint64(0), dropped,
		"verification is bypassed (nil ReportFn) yet dropped_reports=%d of %d checkpoints; delivered+dropped=%d != written=%d",
		dropped, written, verified+dropped, written)
}
