package wal

// D3c (C11): every error return of wal.Open after metaDB.Load succeeded leaves
// the meta store (BoltDB file lock) and the segment readers opened so far
// unreleased. A later Open of the same directory in the same process - e.g.
// the retry after fixing the configuration - blocks forever on the bolt lock.

import (
	"testing"
	"time"

	"github.com/hashicorp/raft"
)

type d03OtherCodec struct{ BinaryCodec }

func (d03OtherCodec) ID() uint64 { return FirstExternalCodecID + 7 }

func TestReplayD03cOpenLeaksMetaDB(t *testing.T) {
	dir := t.TempDir()
	w, err := Open(dir)
	if err != nil {
		t.Fatal(err)
	}
	if err := w.StoreLogs([]*raft.Log{{Index: 1, Term: 1, Data: []byte("x")}}); err != nil {
		t.Fatal(err)
	}
	if err := w.Close(); err != nil {
		t.Fatal(err)
	}
	// a mis-configured Open fails cleanly ...
	if _, err := Open(dir, WithCodec(&d03OtherCodec{})); err == nil {
		t.Fatal("expected the codec mismatch to be reported")
	}
	// ... but the retry with the right configuration never returns
	done := make(chan error, 1)
	go func() {
		w2, err := Open(dir)
		if err == nil {
			w2.Close()
		}
		done <- err
	}()
	select {
	case err := <-done:
		if err != nil {
			t.Fatalf("retry failed: %v", err)
		}
		t.Logf("REPLAY-NOT-REPRODUCED: Open after a failed Open returned")
	case <-time.After(3 * time.Second):
		t.Fatalf("REPLAY-CONFIRMED C11: Open after a failed Open (codec mismatch) hangs: the failed Open left the meta store locked")
	}
}
