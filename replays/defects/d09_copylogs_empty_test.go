package migrate

// D9 (C19): CopyLogs of an empty source log fails: first == last == 0 makes the
// loop run once and GetLog(0) errors, although "CopyLogs leaves the destination
// with exactly the source's entries ... including an empty log".

import (
	"context"
	"testing"

	"github.com/hashicorp/raft"
)

func TestReplayD09CopyLogsEmpty(t *testing.T) {
	src, dst := raft.NewInmemStore(), raft.NewInmemStore()
	err := CopyLogs(context.Background(), dst, src, 1024, nil)
	if err != nil {
		t.Fatalf("REPLAY-CONFIRMED C19: copying an empty source log fails: %v", err)
	}
	f, _ := dst.FirstIndex()
	l, _ := dst.LastIndex()
	if f != 0 || l != 0 {
		t.Fatalf("REPLAY-CONFIRMED C19: destination not empty: first=%d last=%d", f, l)
	}
	t.Logf("REPLAY-NOT-REPRODUCED: empty source copied")
}
