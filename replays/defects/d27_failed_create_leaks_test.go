package fs

import (
	"math"
	"os"
	"path/filepath"
	"strings"
	"testing"
)

// TestReview1CreateFailureLeaksFileAndDescriptor: a Create that returns an
// error must not leave anything behind: neither a directory entry (a retry of
// the exclusive create would then fail with EEXIST) nor an open descriptor.
func TestReview1CreateFailureLeaksFileAndDescriptor(t *testing.T) {
	dir := t.TempDir()
	vfs := New()
	name := "00000000000000000001-0000000000000001.wal"

	wf, err := vfs.Create(dir, name, uint64(math.MaxInt32)+1)
	if err == nil {
		wf.Close()
		t.Skip("oversized create unexpectedly succeeded")
	}

	// 1. No descriptor for the file may remain open in this process.
	fds, rerr := os.ReadDir("/proc/self/fd")
	if rerr == nil {
		for _, fd := range fds {
			target, _ := os.Readlink(filepath.Join("/proc/self/fd", fd.Name()))
			if strings.HasSuffix(target, name) {
				t.Errorf("failed Create left descriptor %s open on %s", fd.Name(), target)
			}
		}
	}

	// 2. The failed call must not have been half applied: no file.
	if _, serr := os.Stat(filepath.Join(dir, name)); serr == nil {
		t.Errorf("failed Create left the file %s behind", name)
	}

	// 3. So a retry with an acceptable size must succeed.
	wf, err = vfs.Create(dir, name, 4096)
	if err != nil {
		t.Fatalf("retry of Create after a failed Create: %v", err)
	}
	wf.Close()
}
