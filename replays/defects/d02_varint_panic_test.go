package wal

// D2 (C11): decoding damaged bytes panics instead of returning an error:
// binary.Uvarint returns n < 0 for an over-long varint and decoder.varint
// slices d.buf[n:].

import (
	"bytes"
	"testing"

	"github.com/hashicorp/raft"
)

func TestReplayD02VarintPanic(t *testing.T) {
	defer func() {
		if r := recover(); r != nil {
			t.Fatalf("REPLAY-CONFIRMED C11: Decode of damaged bytes panicked: %v", r)
		}
	}()
	var l raft.Log
	err := (&BinaryCodec{}).Decode(bytes.Repeat([]byte{0x80}, 11), &l)
	if err == nil {
		t.Fatalf("REPLAY-CONFIRMED C11: damaged bytes decoded without error")
	}
	t.Logf("REPLAY-NOT-REPRODUCED: error returned: %v", err)
}
