package wal

// D10 (C05): after a head truncation inside the live tail segment, GetLog still
// returns entries below FirstIndex (the tail writer does not know the state's
// MinIndex); after a reopen the same index is not found. The reference model
// returns ErrLogNotFound for every index outside [FirstIndex, LastIndex].

import (
	"testing"

	"github.com/hashicorp/raft"
)

func TestReplayD10GetLogBelowFirst(t *testing.T) {
	dir := t.TempDir()
	w, err := Open(dir)
	if err != nil {
		t.Fatal(err)
	}
	for i := uint64(1); i <= 10; i++ {
		if err := w.StoreLog(&raft.Log{Index: i, Term: 1, Data: []byte("x")}); err != nil {
			t.Fatal(err)
		}
	}
	if err := w.DeleteRange(1, 4); err != nil {
		t.Fatal(err)
	}
	first, _ := w.FirstIndex()
	var out raft.Log
	errBefore := w.GetLog(3, &out)
	w.Close()
	w2, err := Open(dir)
	if err != nil {
		t.Fatal(err)
	}
	defer w2.Close()
	errAfter := w2.GetLog(3, &out)
	if first != 5 {
		t.Fatalf("unexpected FirstIndex %d", first)
	}
	if errBefore != raft.ErrLogNotFound || errAfter != raft.ErrLogNotFound {
		t.Fatalf("REPLAY-CONFIRMED C05: FirstIndex()=5 but GetLog(3) = %v before reopen and %v after reopen (model: ErrLogNotFound both times)", errBefore, errAfter)
	}
	t.Logf("REPLAY-NOT-REPRODUCED: GetLog(3) not found before and after reopen")
}
