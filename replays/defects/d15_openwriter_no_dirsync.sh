#!/bin/bash
# D15 (C07): first commit into a file reopened through FS.OpenWriter is
# acknowledged without any fsync of the containing directory.
# usage: d15_openwriter_no_dirsync.sh [repo-dir]
REPO=${1:-/repo}
export GOFLAGS=-mod=mod GOPROXY=off GOSUMDB=off GOTOOLCHAIN=local
TMP=$(mktemp -d); trap 'rm -rf "$TMP"' EXIT
mkdir "$TMP/data"
cat > "$TMP/ov.json" <<JSON
{"Replace": {"$REPO/fs/zz_d15_openwriter_test.go": "/verif/replays/defects/d15_openwriter_test.go"}}
JSON
(cd "$REPO/fs" && go test -overlay "$TMP/ov.json" -vet=off -c -o "$TMP/fs.test" .) || exit 2
D15_DIR="$TMP/data" strace -f -y -e trace=fsync,fdatasync,newfstatat,statx -o "$TMP/trace" "$TMP/fs.test" -test.run TestReplayD15OpenWriter >/dev/null 2>&1
# keep only the part between the two markers
awk '/PHASE2-MARKER/{on=1} on{print} /ACK-MARKER/{on=0}' "$TMP/trace" > "$TMP/phase2"
if grep -q "fsync(.*<$TMP/data>)" "$TMP/phase2"; then
  echo "REPLAY-NOT-REPRODUCED: directory fsynced before the first commit was acknowledged"
  grep "fsync" "$TMP/phase2"
  exit 0
fi
echo "REPLAY-CONFIRMED C07: between reopening the tail and acknowledging its first commit only these syncs happened (no fsync of the directory $TMP/data):"
grep -E "fsync|fdatasync" "$TMP/phase2"
exit 1
