package segment

// D13 (C02): recoverTail accepts a commit frame whose CRC was never checked on
// two paths. Both images below are reachable by chains of crashes in which only
// some 8-byte chunks of a batch reach the preallocated file (README "Our
// assumptions": writes are not atomic beyond 8-byte chunks), leaving stale
// frames of an earlier torn batch behind a later torn batch.

import (
	"bytes"
	"hash/crc32"
	"testing"

	"github.com/hashicorp/raft-wal/types"
)

func d13Base(t *testing.T) (*Filer, types.SegmentInfo, *testWritableFile, uint32) {
	vfs := newTestVFS()
	f := NewFiler("test", vfs)
	info := types.SegmentInfo{BaseIndex: 1, ID: 1, MinIndex: 1, Codec: 1, SizeLimit: 4096}
	w0, err := f.Create(info)
	if err != nil {
		t.Fatal(err)
	}
	// batch {1,2} acknowledged
	if err := w0.Append([]types.LogEntry{{Index: 1, Data: []byte("11111111")}, {Index: 2, Data: []byte("22222222")}}); err != nil {
		t.Fatal(err)
	}
	return f, info, testFileFor(t, w0), w0.(*Writer).writer.writeOffset
}

func frame(t *testing.T, typ uint8, payload []byte, crc uint32) []byte {
	b := make([]byte, encodedFrameSize(len(payload)))
	if err := writeFrame(b, frameHeader{typ: typ, len: uint32(len(payload)), crc: crc}, payload); err != nil {
		t.Fatal(err)
	}
	return b
}

// Witness 1: "entries found after the last commit => the commit must have
// completed, no need to verify".
//   crash 1: batch A = {3,4,5} (8-byte payloads) torn: frames reach the disk, commit does not.
//   recover: last=2 (A discarded), cursor back at wo.
//   crash 2: batch B = {3'} (16-byte payload) torn: header chunk, first payload
//            chunk and the commit chunk reach the disk, the second payload chunk
//            does not (it still holds A's bytes). Behind B's commit frame sits
//            A's stale frame of entry 5.
func TestReplayD13EntriesAfterFinal(t *testing.T) {
	f, info, file, wo := d13Base(t)
	a3 := frame(t, FrameEntry, []byte("AAAAAAA3"), 0)
	a4 := frame(t, FrameEntry, []byte("AAAAAAA4"), 0)
	a5 := frame(t, FrameEntry, []byte("AAAAAAA5"), 0)
	file.WriteAt(bytes.Join([][]byte{a3, a4, a5}, nil), int64(wo))
	w1, err := f.RecoverTail(info)
	if err != nil || w1.LastIndex() != 2 {
		t.Fatalf("recovery 1: err=%v last=%d", err, w1.LastIndex())
	}
	intended := []byte("BBBBBBBBbbbbbbbb")
	b3 := frame(t, FrameEntry, intended, 0)
	commitB := frame(t, FrameCommit, nil, crc32.Checksum(b3, castagnoliTable))
	// torn write of B: chunks 0,1 of b3 and the commit frame persist, chunk 2 of b3 does not
	file.WriteAt(b3[:16], int64(wo))
	file.WriteAt(commitB, int64(wo)+24)
	w2, err := f.RecoverTail(info)
	if err != nil {
		t.Fatalf("recovery 2: %v", err)
	}
	if w2.LastIndex() == 2 {
		t.Logf("REPLAY-NOT-REPRODUCED: torn batch B discarded")
		return
	}
	buf, err := w2.GetLog(3)
	if err != nil {
		t.Fatalf("last=%d but GetLog(3): %v", w2.LastIndex(), err)
	}
	if !bytes.Equal(buf.Bs, intended) {
		t.Fatalf("REPLAY-CONFIRMED C02 (entries-after-final): StoreLogs of B never returned, yet recovery reports last=%d and GetLog(3)=%q, bytes nobody ever wrote (intended %q); commit CRC was not checked", w2.LastIndex(), buf.Bs, intended)
	}
}

// Witness 2: "final commit fails its CRC => rewind to the previous commit",
// which is never validated.
//   crash 1: batch X = {3} torn: payload chunk missing, commit cX persisted.
//   recover: cX fails CRC, rewind to c1 (correct), cursor back at wo.
//   crash 2: batch Z = {3',4'} torn: only the payload chunk of 4' and cZ persist.
//            The payload of 4' is user data that parses as an (empty) entry frame.
//   disk:    c1 | x3(torn, stale) | cX(stale) | <payload of 4'> | cZ
func TestReplayD13RewindToPrev(t *testing.T) {
	f, info, file, wo := d13Base(t)
	x3 := frame(t, FrameEntry, []byte("XXXXXXXX"), 0)
	cX := frame(t, FrameCommit, nil, crc32.Checksum(x3, castagnoliTable))
	torn := append([]byte{}, x3...)
	copy(torn[8:], []byte{0, 0, 0, 0, 0, 0, 0, 0}) // payload chunk never reached the disk
	file.WriteAt(torn, int64(wo))
	file.WriteAt(cX, int64(wo)+16)
	w1, err := f.RecoverTail(info)
	if err != nil || w1.LastIndex() != 2 {
		t.Fatalf("recovery 1: err=%v last=%d", err, w1.LastIndex())
	}
	z3 := frame(t, FrameEntry, []byte("ZZZZZZZ3"), 0)
	hdrLike := frame(t, FrameEntry, nil, 0) // 8 bytes of user data that look like an empty entry frame
	z4 := frame(t, FrameEntry, hdrLike, 0)
	cZ := frame(t, FrameCommit, nil, crc32.Checksum(append(append([]byte{}, z3...), z4...), castagnoliTable))
	// torn write of Z: only z4's payload chunk and cZ persist
	file.WriteAt(z4[8:16], int64(wo)+24)
	file.WriteAt(cZ, int64(wo)+32)
	w2, err := f.RecoverTail(info)
	if err != nil {
		t.Fatalf("recovery 2: %v", err)
	}
	if w2.LastIndex() == 2 {
		t.Logf("REPLAY-NOT-REPRODUCED: torn batches discarded")
		return
	}
	buf, err := w2.GetLog(3)
	if err != nil {
		t.Fatalf("last=%d but GetLog(3): %v", w2.LastIndex(), err)
	}
	t.Fatalf("REPLAY-CONFIRMED C02 (rewind-to-prev): no StoreLogs for index 3 ever returned, yet recovery reports last=%d and GetLog(3)=%q (torn bytes of X, whose commit CRC does not match)", w2.LastIndex(), buf.Bs)
}
