package segment

// D12a (C03): recoverTail keeps indexStart from ANY index frame seen during the
// scan, also when that frame belongs to a torn (discarded) sealing batch. The
// recovered tail then reports Sealed() and refuses every Append with ErrSealed.
//
// History: one committed batch; then a sealing batch (entry + index frame +
// commit) is torn: the entry and index frames reach the disk, the commit
// frame does not. Recovery must discard the torn batch and stay appendable.

import (
	"testing"

	"github.com/hashicorp/raft-wal/types"
)

func TestReplayD12aSealFlag(t *testing.T) {
	vfs := newTestVFS()
	f := NewFiler("test", vfs)
	info := types.SegmentInfo{BaseIndex: 1, ID: 1, MinIndex: 1, Codec: 1, SizeLimit: 4096}
	w0, err := f.Create(info)
	if err != nil {
		t.Fatal(err)
	}
	if err := w0.Append([]types.LogEntry{{Index: 1, Data: []byte("one")}}); err != nil {
		t.Fatal(err)
	}
	file := testFileFor(t, w0)
	// torn sealing batch: entry frame + index frame, no commit frame
	buf := make([]byte, 64)
	off := 0
	if err := writeFrame(buf[off:], frameHeader{typ: FrameEntry, len: 3}, []byte("two")); err != nil {
		t.Fatal(err)
	}
	off += encodedFrameSize(3)
	if err := writeIndexFrame(buf[off:], []uint32{32, 48}); err != nil {
		t.Fatal(err)
	}
	off += indexFrameSize(2)
	wr := w0.(*Writer)
	if _, err := file.WriteAt(buf[:off], int64(wr.writer.writeOffset)); err != nil {
		t.Fatal(err)
	}
	// "crash" and recover
	w1, err := f.RecoverTail(info)
	if err != nil {
		t.Fatalf("recover: %v", err)
	}
	if got := w1.LastIndex(); got != 1 {
		t.Fatalf("unexpected last index %d", got)
	}
	sealed, _, _ := w1.Sealed()
	err = w1.Append([]types.LogEntry{{Index: 2, Data: []byte("two")}})
	if sealed || err != nil {
		t.Fatalf("REPLAY-CONFIRMED C03: recovered tail (last=1, torn sealing batch discarded) reports sealed=%v and refuses Append: %v", sealed, err)
	}
	t.Logf("REPLAY-NOT-REPRODUCED: recovered tail is appendable")
}
