package wal

// D14 (C10): mutateStateLocked returns an error AFTER the metadata has been
// replaced when the post-commit step (creating the new tail file) fails. For an
// all-deleting head truncation the in-memory state keeps the old tail: later
// appends are acknowledged into a file the next Open deletes as an orphan.

import (
	"errors"
	"testing"

	"github.com/hashicorp/raft"
	"github.com/hashicorp/raft-wal/fs"
	"github.com/hashicorp/raft-wal/segment"
	"github.com/hashicorp/raft-wal/types"
)

type replayFailingFiler struct {
	types.SegmentFiler
	failNextCreate bool
}

func (f *replayFailingFiler) Create(info types.SegmentInfo) (types.SegmentWriter, error) {
	if f.failNextCreate {
		f.failNextCreate = false
		return nil, errors.New("ENOSPC (injected)")
	}
	return f.SegmentFiler.Create(info)
}

func TestReplayD14CommitThenPostCommitFails(t *testing.T) {
	dir := t.TempDir()
	ff := &replayFailingFiler{SegmentFiler: segment.NewFiler(dir, fs.New())}
	w, err := Open(dir, WithSegmentFiler(ff))
	if err != nil {
		t.Fatal(err)
	}
	for i := uint64(1); i <= 3; i++ {
		if err := w.StoreLog(&raft.Log{Index: i, Term: 1, Data: []byte("x")}); err != nil {
			t.Fatal(err)
		}
	}
	ff.failNextCreate = true
	if err := w.DeleteRange(1, 3); err == nil {
		t.Fatal("expected the injected failure")
	}
	// the caller was told the truncation failed; it keeps appending
	if err := w.StoreLog(&raft.Log{Index: 4, Term: 1, Data: []byte("acked")}); err != nil {
		t.Logf("REPLAY-NOT-REPRODUCED: append after failed truncation refused: %v", err)
		return
	}
	w.Close()
	w2, err := Open(dir)
	if err != nil {
		t.Fatalf("REPLAY-CONFIRMED C10: reopen after failed DeleteRange + acknowledged append fails: %v", err)
	}
	defer w2.Close()
	var out raft.Log
	if err := w2.GetLog(4, &out); err != nil {
		first, _ := w2.FirstIndex()
		last, _ := w2.LastIndex()
		t.Fatalf("REPLAY-CONFIRMED C10: StoreLog(4) returned nil after DeleteRange returned an error, yet after reopen GetLog(4)=%v (first=%d last=%d): acknowledged entry lost", err, first, last)
	}
	t.Logf("REPLAY-NOT-REPRODUCED: entry 4 survived")
}
