package verifier

// D7 (C16): a tail truncation followed by re-appended entries leaves the
// follower's running write-checksum polluted with the truncated entries; the
// next checkpoint is then reported as in-flight corruption although the
// follower stores exactly what the leader wrote.

import (
	"testing"
	"time"

	"github.com/hashicorp/raft"
	"github.com/hashicorp/raft-wal/metrics"
)

func TestReplayD07TruncatePollutesSum(t *testing.T) {
	isCP := func(l *raft.Log) (bool, error) { return string(l.Data) == "cp", nil }
	mk := func(idx uint64, data string) *raft.Log {
		return &raft.Log{Index: idx, Term: 1, Type: raft.LogCommand, Data: []byte(data)}
	}
	// leader: 1,2,3,4',5',cp6
	leader := NewLogStore(raft.NewInmemStore(), isCP, func(VerificationReport) {}, metrics.NewAtomicCollector(MetricDefinitions))
	defer leader.Close()
	cp := mk(6, "cp")
	if err := leader.StoreLogs([]*raft.Log{mk(1, "a"), mk(2, "b"), mk(3, "c"), mk(4, "new4"), mk(5, "new5"), cp}); err != nil {
		t.Fatal(err)
	}
	// follower: 1,2,3 then 4,5 of a deposed leader, truncated, then the new 4',5',cp6
	reports := make(chan VerificationReport, 4)
	follower := NewLogStore(raft.NewInmemStore(), isCP, func(r VerificationReport) { reports <- r }, metrics.NewAtomicCollector(MetricDefinitions))
	defer follower.Close()
	if err := follower.StoreLogs([]*raft.Log{mk(1, "a"), mk(2, "b"), mk(3, "c"), mk(4, "old4"), mk(5, "old5")}); err != nil {
		t.Fatal(err)
	}
	if err := follower.DeleteRange(4, 5); err != nil {
		t.Fatal(err)
	}
	cpCopy := &raft.Log{Index: 6, Term: 1, Type: raft.LogCommand, Data: []byte("cp"), Extensions: append([]byte(nil), cp.Extensions...)}
	if err := follower.StoreLogs([]*raft.Log{mk(4, "new4"), mk(5, "new5"), cpCopy}); err != nil {
		t.Fatal(err)
	}
	select {
	case r := <-reports:
		if r.Err != nil {
			t.Fatalf("REPLAY-CONFIRMED C16: follower stores exactly the leader's entries 1..5 yet reports: %v", r.Err)
		}
		t.Logf("REPLAY-NOT-REPRODUCED: clean report %+v", r)
	case <-time.After(5 * time.Second):
		t.Fatal("no report delivered")
	}
}
