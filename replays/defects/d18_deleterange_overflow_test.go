package wal

// D18 (C05): DeleteRange(min, MaxUint64) computes max+1 == 0 for the new first
// index: the call returns nil but deletes nothing consistent: FirstIndex()
// becomes 0 while LastIndex() and reads still report entries.

import (
	"math"
	"testing"

	"github.com/hashicorp/raft"
)

func TestReplayD18DeleteRangeOverflow(t *testing.T) {
	dir := t.TempDir()
	w, err := Open(dir)
	if err != nil {
		t.Fatal(err)
	}
	defer w.Close()
	for i := uint64(1); i <= 5; i++ {
		if err := w.StoreLog(&raft.Log{Index: i, Term: 1, Data: []byte("x")}); err != nil {
			t.Fatal(err)
		}
	}
	if err := w.DeleteRange(0, math.MaxUint64); err != nil {
		t.Fatalf("unexpected error: %v", err)
	}
	first, _ := w.FirstIndex()
	last, _ := w.LastIndex()
	var out raft.Log
	err3 := w.GetLog(3, &out)
	// model: a range covering every index deletes the whole log
	if first != 0 || last != 0 || err3 != raft.ErrLogNotFound {
		t.Fatalf("REPLAY-CONFIRMED C05: after DeleteRange(0, MaxUint64)=nil: FirstIndex=%d LastIndex=%d GetLog(3)=%v (model: empty log)", first, last, err3)
	}
	t.Logf("REPLAY-NOT-REPRODUCED: log is empty")
}
