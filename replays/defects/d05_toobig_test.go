package wal

// D5 (C15): an entry larger than MaxEntrySize (64 MiB) is acknowledged by
// StoreLog and can then never be read back.

import (
	"testing"

	"github.com/hashicorp/raft"
)

func TestReplayD05TooBig(t *testing.T) {
	dir := t.TempDir()
	w, err := Open(dir, WithSegmentSize(256*1024*1024))
	if err != nil {
		t.Fatal(err)
	}
	defer w.Close()
	big := make([]byte, 64*1024*1024+1)
	err = w.StoreLog(&raft.Log{Index: 1, Term: 1, Data: big})
	if err != nil {
		t.Logf("REPLAY-NOT-REPRODUCED: oversized entry refused: %v", err)
		return
	}
	var out raft.Log
	if err := w.GetLog(1, &out); err != nil {
		t.Fatalf("REPLAY-CONFIRMED C15: entry acknowledged by StoreLog but unreadable: %v", err)
	}
	t.Logf("REPLAY-NOT-REPRODUCED: oversized entry stored and read back")
}
