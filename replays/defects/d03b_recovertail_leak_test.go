package segment

// D3b (C11 "a failed Open leaves nothing ... open"): Filer.RecoverTail leaves
// the tail file descriptor open when recovery fails (e.g. header of another
// segment under a valid commit).

import (
	"os"
	"path/filepath"
	"strings"
	"testing"

	"github.com/hashicorp/raft-wal/fs"
	"github.com/hashicorp/raft-wal/types"
)

func openFDsForB(t *testing.T, path string) int {
	ents, err := os.ReadDir("/proc/self/fd")
	if err != nil {
		t.Skip("no /proc")
	}
	n := 0
	for _, e := range ents {
		if l, err := os.Readlink(filepath.Join("/proc/self/fd", e.Name())); err == nil && strings.HasSuffix(l, path) {
			n++
		}
	}
	return n
}

func TestReplayD03bRecoverTailLeak(t *testing.T) {
	dir := t.TempDir()
	f := NewFiler(dir, fs.New())
	good := types.SegmentInfo{BaseIndex: 1, ID: 7, MinIndex: 1, Codec: 1, SizeLimit: 4096}
	w, err := f.Create(good)
	if err != nil {
		t.Fatal(err)
	}
	if err := w.Append([]types.LogEntry{{Index: 1, Data: []byte("x")}}); err != nil {
		t.Fatal(err)
	}
	w.Close()
	// metadata now claims the same file name belongs to a segment with another codec
	bad := good
	bad.Codec = 2
	if err := os.Rename(filepath.Join(dir, FileName(good)), filepath.Join(dir, FileName(bad))); err != nil {
		t.Fatal(err)
	}
	_, err = f.RecoverTail(bad)
	if err == nil {
		t.Fatal("expected header mismatch")
	}
	if n := openFDsForB(t, FileName(bad)); n != 0 {
		t.Fatalf("REPLAY-CONFIRMED C11: RecoverTail returned %q but left %d descriptor(s) open", err, n)
	}
	t.Logf("REPLAY-NOT-REPRODUCED: no descriptor left open")
}
