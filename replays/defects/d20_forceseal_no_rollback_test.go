package segment

// D20 (C10): ForceSeal has no rollback. When writing or fsyncing the index and
// commit frames fails, the writer keeps indexStart > 0. A retry (the retried
// tail truncation) takes the "already sealed" shortcut and returns success
// without writing or syncing anything: the WAL then commits metadata that
// calls the segment sealed at IndexStart although its index block is not
// durable (here: the write itself failed, so the block is not in the file).

import (
	"testing"

	"github.com/hashicorp/raft-wal/types"
)

func TestReplayD20ForceSealNoRollback(t *testing.T) {
	vfs := newTestVFS()
	f := NewFiler("test", vfs)
	info := types.SegmentInfo{BaseIndex: 1, ID: 1, MinIndex: 1, Codec: 1, SizeLimit: 64 * 1024}
	w, err := f.Create(info)
	if err != nil {
		t.Fatal(err)
	}
	for i := uint64(1); i <= 3; i++ {
		if err := w.Append([]types.LogEntry{{Index: i, Data: []byte("entry")}}); err != nil {
			t.Fatal(err)
		}
	}
	file := testFileFor(t, w)
	sizeBefore := file.maxWritten

	file.failNextWrite()
	if _, err := w.ForceSeal(); err == nil {
		t.Fatal("expected the injected write error")
	}
	// the caller retries
	indexStart, err := w.ForceSeal()
	if err != nil {
		t.Logf("REPLAY-NOT-REPRODUCED: retry reported %v", err)
		return
	}
	if file.maxWritten == sizeBefore {
		t.Fatalf("REPLAY-CONFIRMED C10: ForceSeal failed once (write error); the retry returned indexStart=%d and nil without writing anything (file still ends at %d): the index block the metadata will point to does not exist", indexStart, sizeBefore)
	}
	// the index block must really be in the file: reopen as a sealed segment
	info.IndexStart = indexStart
	info.MaxIndex = 3
	r, err := f.Open(info)
	if err != nil {
		t.Fatalf("reopen sealed: %v", err)
	}
	if _, err := r.GetLog(2); err != nil {
		t.Fatalf("REPLAY-CONFIRMED C10: sealed segment unreadable after a failed-then-retried ForceSeal: %v", err)
	}
	t.Logf("REPLAY-NOT-REPRODUCED: retry wrote the index block (file grew from %d to %d)", sizeBefore, file.maxWritten)
}
